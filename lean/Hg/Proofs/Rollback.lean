/-
  Hg.Proofs.Rollback — C12: a raising fill leaves no trace on single-path trees.
-/
import Hg.Proofs.KeyFacts
import Hg.Proofs.FillEq

namespace Hg
namespace Rb
open KF

theorem lookupK_single (k1 key : Key) (w' : Val) :
    lookupK k1 [(key, w')] = if key = k1 then some w' else none := by
  simp [lookupK]

theorem fillKids_nil (d : Datum) : ∀ (kids : List (Key × Agg)), fillKids kids [] d = (kids, .ok)
  | [] => by simp [fillKids]
  | (k, a) :: rest => by
    simp [fillKids, lookupK, fillKids_nil d rest]

theorem fillKids_absent (key : Key) (w' : Val) (d : Datum) :
    ∀ (kids : List (Key × Agg)), key ∉ keysOf kids → fillKids kids [(key, w')] d = (kids, .ok)
  | [], _ => by simp [fillKids]
  | (k, a) :: rest, h => by
    simp only [keysOf_cons, List.mem_cons, not_or] at h
    have hne : ¬ key = k := h.1
    simp [fillKids, lookupK_single, hne, fillKids_absent key w' d rest h.2]

/-- the kinds allowed at the nodes of a single-path tree -/
def spKind : Kind → Bool
  | .stack _ | .fraction _ | .label | .untypedLabel | .index | .branch => false
  | _ => true

theorem route_len (k : Kind) (keys : List Key) (d : Datum) (w : Val) (targets : List (Key × Val))
    (hk : spKind k = true) (h : route k keys d w = .ok targets) : targets.length ≤ 1 := by
  cases k with
  | bin q n low high =>
    cases hx : q.evalNum d <;> simp [route, hx, bind, Except.bind, pure, Except.pure] at h
    subst h; simp
  | sparse q width origin ctype cname =>
    cases hx : q.evalNum d <;> simp [route, hx, bind, Except.bind, pure, Except.pure] at h
    subst h; simp
  | central q =>
    cases hx : q.evalNum d <;> simp only [route, hx, bind, Except.bind, pure, Except.pure] at h
    · cases h
    · split at h
      · cases h; simp
      · split at h
        · cases h; simp
        · cases h
  | irregular q =>
    cases hx : q.evalNum d <;> simp only [route, hx, bind, Except.bind, pure, Except.pure] at h
    · cases h
    · split at h
      · cases h; simp
      · split at h
        · cases h; simp
        · cases h; simp
  | select q =>
    cases hx : q.evalNum d <;> simp only [route, hx, bind, Except.bind, pure, Except.pure] at h
    · cases h
    · cases h; split <;> simp
  | categorize q ctype cname =>
    simp only [route] at h
    split at h
    · cases h
    · split at h <;> cases h <;> simp
  | stack _ | fraction _ | label | untypedLabel | index | branch => simp [spKind] at hk
  | count | sum _ | average _ | deviate _ | minimize _ | maximize _ | bag _ _ =>
    simp [route] at h

theorem singlePath_node (k : Kind) (e : Val) (st : St) (tmpl : Option Agg) (kids : List (Key × Agg)) :
    singlePath (.node k e st tmpl kids) = (spKind k && singlePathOpt tmpl && singlePathKids kids) := by
  cases k <;> rfl

/-! ### rollback -/

theorem not_ok_isOk (o : Outcome) (h : o ≠ .ok) : o.isOk = false := by
  cases o
  · exact absurd rfl h
  · rfl

mutual
theorem rollback : ∀ (t : Agg) (d : Datum) (w : Val), singlePath t = true → distinctKeys t = true →
    (fill t d w).2 ≠ .ok → (fill t d w).1 = t
  | .node k e st tmpl kids, d, w, hs, hd, hr => by
    rw [singlePath_node] at hs
    simp only [Bool.and_eq_true] at hs
    obtain ⟨⟨hk, hst⟩, hsk⟩ := hs
    simp only [distinctKeys, Bool.and_eq_true, decide_eq_true_eq] at hd
    obtain ⟨⟨hnd, hdt⟩, hdk⟩ := hd
    have hkids : ∀ (key : Key) (w' : Val), (fillKids kids [(key, w')] d).2 ≠ .ok →
        (fillKids kids [(key, w')] d).1 = kids := fun key w' h =>
      rollbackKids kids key w' d hsk hdk hnd h
    cases hp : w.pos with
    | false => rw [FE.fill_closed _ _ _ _ _ _ _ hp] at hr; exact absurd rfl hr
    | true =>
    cases hl : k.isLeaf with
    | true =>
      cases hf : leafFill k e st d w with
      | ok p => rw [FE.fill_leaf_ok _ _ _ _ _ _ _ hp hl p.1 p.2 hf] at hr; exact absurd rfl hr
      | error f => rw [FE.fill_leaf_err _ _ _ _ _ _ _ hp hl f hf]
    | false =>
    cases hroute : route k (keysOf kids) d w with
    | error f => rw [FE.fill_route_err _ _ _ _ _ _ _ hp hl f hroute]
    | ok targets =>
    have hlen := route_len k _ d w targets hk hroute
    have hplain : ∀ key w', targets = [(key, w')] →
        fill (.node k e st tmpl kids) d w =
          (.node k (if (fillKids kids targets d).2.isOk then e + w else e) st tmpl
            (fillKids kids targets d).1, (fillKids kids targets d).2) →
        (fill (.node k e st tmpl kids) d w).1 = .node k e st tmpl kids := by
      intro key w' ht heq
      subst ht
      rw [heq] at hr ⊢
      have hne : (fillKids kids [(key, w')] d).2 ≠ .ok := hr
      simp only [not_ok_isOk _ hne, hkids key w' hne, Bool.false_eq_true, if_false]
    match targets, hlen, hroute, hplain with
    | [], _, hroute, _ =>
      rw [FE.fill_plain _ _ _ _ _ _ _ hp hl [] hroute (Or.inr (fun _ _ h => by cases h)), fillKids_nil] at hr
      exact absurd rfl hr
    | [(key, w')], _, hroute, hplain =>
      cases hsp : k.isSparse with
      | false =>
        exact hplain key w' rfl (FE.fill_plain _ _ _ _ _ _ _ hp hl _ hroute (Or.inl hsp))
      | true =>
        cases hh : hasKey key kids with
        | true =>
          exact hplain key w' rfl (FE.fill_sparse_has _ _ _ _ _ _ _ hp hl hsp key w' hroute hh)
        | false =>
          cases ht : fillTmpl tmpl d w' with
          | none => rw [FE.fill_sparse_new_none _ _ _ _ _ _ _ hp hl hsp key w' hroute hh ht]
          | some r =>
            obtain ⟨nb, o⟩ := r
            cases o with
            | ok =>
              rw [FE.fill_sparse_new_ok _ _ _ _ _ _ _ hp hl hsp key w' hroute hh nb ht] at hr
              exact absurd rfl hr
            | raised f =>
              rw [FE.fill_sparse_new_raised _ _ _ _ _ _ _ hp hl hsp key w' hroute hh nb f ht]
theorem rollbackKids : ∀ (kids : List (Key × Agg)) (key : Key) (w' : Val) (d : Datum),
    singlePathKids kids = true → distinctKeysKids kids = true → (keysOf kids).Nodup →
    (fillKids kids [(key, w')] d).2 ≠ .ok → (fillKids kids [(key, w')] d).1 = kids
  | [], _, _, _, _, _, _, _ => by simp [fillKids]
  | (k1, a) :: rest, key, w', d, hs, hd, hnd, hr => by
    simp only [singlePathKids, Bool.and_eq_true] at hs
    simp only [distinctKeysKids, Bool.and_eq_true] at hd
    rw [keysOf_cons, List.nodup_cons] at hnd
    simp only [fillKids, lookupK_single] at hr ⊢
    by_cases hk : key = k1
    · subst hk
      simp only [if_true] at hr ⊢
      by_cases hok : (fill a d w').2.isOk = true
      · simp only [hok, if_true] at hr
        rw [fillKids_absent key w' d rest hnd.1] at hr
        exact absurd rfl hr
      · simp only [hok] at hr ⊢
        simp only [Bool.false_eq_true, if_false] at hr ⊢
        rw [rollback a d w' hs.1 hd.1 hr]
    · simp only [hk, if_false] at hr ⊢
      rw [rollbackKids rest key w' d hs.2 hd.2 hnd.2 hr]
end

/-! ### shape of the result of a fill -/

theorem fill_shape (k : Kind) (e : Val) (st : St) (tmpl : Option Agg) (kids : List (Key × Agg))
    (d : Datum) (w : Val) :
    ∃ e' st' kids', (fill (.node k e st tmpl kids) d w).1 = .node k e' st' tmpl kids' ∧
      (kids' = kids ∨ (∃ targets, kids' = (fillKids kids targets d).1) ∨
        (∃ key w' nb, hasKey key kids = false ∧ fillTmpl tmpl d w' = some (nb, .ok) ∧
          kids' = insertK key nb kids)) := by
  cases hp : w.pos with
  | false => exact ⟨e, st, kids, by rw [FE.fill_closed _ _ _ _ _ _ _ hp], Or.inl rfl⟩
  | true =>
  cases hl : k.isLeaf with
  | true =>
    cases hf : leafFill k e st d w with
    | ok p => exact ⟨p.1, p.2, kids, by rw [FE.fill_leaf_ok _ _ _ _ _ _ _ hp hl p.1 p.2 hf], Or.inl rfl⟩
    | error f => exact ⟨e, st, kids, by rw [FE.fill_leaf_err _ _ _ _ _ _ _ hp hl f hf], Or.inl rfl⟩
  | false =>
  cases hroute : route k (keysOf kids) d w with
  | error f => exact ⟨e, st, kids, by rw [FE.fill_route_err _ _ _ _ _ _ _ hp hl f hroute], Or.inl rfl⟩
  | ok targets =>
  by_cases hns : k.isSparse = false ∨ ∀ key w', targets ≠ [(key, w')]
  · exact ⟨_, st, _, by rw [FE.fill_plain _ _ _ _ _ _ _ hp hl _ hroute hns], Or.inr (Or.inl ⟨targets, rfl⟩)⟩
  · simp only [not_or, Bool.not_eq_false, not_forall, not_not] at hns
    obtain ⟨hsp, key, w', ht⟩ := hns
    subst ht
    cases hh : hasKey key kids with
    | true =>
      exact ⟨_, st, _, by rw [FE.fill_sparse_has _ _ _ _ _ _ _ hp hl hsp key w' hroute hh],
        Or.inr (Or.inl ⟨_, rfl⟩)⟩
    | false =>
      cases ht : fillTmpl tmpl d w' with
      | none =>
        exact ⟨e, st, kids, by rw [FE.fill_sparse_new_none _ _ _ _ _ _ _ hp hl hsp key w' hroute hh ht],
          Or.inl rfl⟩
      | some r =>
        obtain ⟨nb, o⟩ := r
        cases o with
        | ok =>
          exact ⟨_, st, _, by rw [FE.fill_sparse_new_ok _ _ _ _ _ _ _ hp hl hsp key w' hroute hh nb ht],
            Or.inr (Or.inr ⟨key, w', nb, hh, ht, rfl⟩)⟩
        | raised f =>
          exact ⟨e, st, kids,
            by rw [FE.fill_sparse_new_raised _ _ _ _ _ _ _ hp hl hsp key w' hroute hh nb f ht], Or.inl rfl⟩

theorem keysOf_fillKids (d : Datum) : ∀ (kids : List (Key × Agg)) (targets : List (Key × Val)),
    keysOf (fillKids kids targets d).1 = keysOf kids
  | [], _ => by simp [fillKids]
  | (k, a) :: rest, targets => by
    simp only [fillKids]
    split
    · simp only [keysOf_cons, keysOf_fillKids d rest targets]
    · split
      · simp only [keysOf_cons, keysOf_fillKids d rest targets]
      · simp only [keysOf_cons]

theorem singlePathKids_insertK (key : Key) (nb : Agg) (hnb : singlePath nb = true) :
    ∀ (kids : List (Key × Agg)), singlePathKids kids = true → singlePathKids (insertK key nb kids) = true
  | [], _ => by simp [insertK, singlePathKids, hnb]
  | (k, a) :: rest, h => by
    simp only [insertK]
    split
    · simp only [singlePathKids, Bool.and_eq_true] at h ⊢
      exact ⟨hnb, h⟩
    · simp only [singlePathKids, Bool.and_eq_true] at h ⊢
      exact ⟨h.1, singlePathKids_insertK key nb hnb rest h.2⟩

theorem distinctKeysKids_insertK (key : Key) (nb : Agg) (hnb : distinctKeys nb = true) :
    ∀ (kids : List (Key × Agg)), distinctKeysKids kids = true → distinctKeysKids (insertK key nb kids) = true
  | [], _ => by simp [insertK, distinctKeysKids, hnb]
  | (k, a) :: rest, h => by
    simp only [insertK]
    split
    · simp only [distinctKeysKids, Bool.and_eq_true] at h ⊢
      exact ⟨hnb, h⟩
    · simp only [distinctKeysKids, Bool.and_eq_true] at h ⊢
      exact ⟨h.1, distinctKeysKids_insertK key nb hnb rest h.2⟩

mutual
theorem singlePath_fill' : ∀ (t : Agg) (d : Datum) (w : Val), singlePath t = true →
    singlePath (fill t d w).1 = true
  | .node k e st tmpl kids, d, w, hs => by
    rw [singlePath_node] at hs
    simp only [Bool.and_eq_true] at hs
    obtain ⟨⟨hk, hst⟩, hsk⟩ := hs
    obtain ⟨e', st', kids', heq, hkids⟩ := fill_shape k e st tmpl kids d w
    rw [heq, singlePath_node]
    simp only [Bool.and_eq_true]
    refine ⟨⟨hk, hst⟩, ?_⟩
    rcases hkids with h | ⟨targets, h⟩ | ⟨key, w', nb, _, ht, h⟩
    · rw [h]; exact hsk
    · rw [h]; exact singlePathKids_fill kids targets d hsk
    · rw [h]
      refine singlePathKids_insertK key nb ?_ kids hsk
      match tmpl, hst, ht with
      | some t, hst, ht =>
        simp only [fillTmpl, Option.some.injEq] at ht
        have := singlePath_fill' t d w' hst
        rw [ht] at this
        exact this
theorem singlePathKids_fill : ∀ (kids : List (Key × Agg)) (targets : List (Key × Val)) (d : Datum),
    singlePathKids kids = true → singlePathKids (fillKids kids targets d).1 = true
  | [], _, _, _ => by simp [fillKids, singlePathKids]
  | (k, a) :: rest, targets, d, hs => by
    simp only [singlePathKids, Bool.and_eq_true] at hs
    simp only [fillKids]
    split
    · simp only [singlePathKids, Bool.and_eq_true]
      exact ⟨hs.1, singlePathKids_fill rest targets d hs.2⟩
    · rename_i w' _
      split
      · simp only [singlePathKids, Bool.and_eq_true]
        exact ⟨singlePath_fill' a d w' hs.1, singlePathKids_fill rest targets d hs.2⟩
      · simp only [singlePathKids, Bool.and_eq_true]
        exact ⟨singlePath_fill' a d w' hs.1, hs.2⟩
end

mutual
theorem distinctKeys_fill : ∀ (t : Agg) (d : Datum) (w : Val), distinctKeys t = true →
    distinctKeys (fill t d w).1 = true
  | .node k e st tmpl kids, d, w, hd => by
    simp only [distinctKeys, Bool.and_eq_true, decide_eq_true_eq] at hd
    obtain ⟨⟨hnd, hdt⟩, hdk⟩ := hd
    obtain ⟨e', st', kids', heq, hkids⟩ := fill_shape k e st tmpl kids d w
    rw [heq]
    simp only [distinctKeys, Bool.and_eq_true, decide_eq_true_eq]
    rcases hkids with h | ⟨targets, h⟩ | ⟨key, w', nb, hh, ht, h⟩
    · rw [h]; exact ⟨⟨hnd, hdt⟩, hdk⟩
    · rw [h, keysOf_fillKids]; exact ⟨⟨hnd, hdt⟩, distinctKeysKids_fill kids targets d hdk⟩
    · rw [h]
      refine ⟨⟨?_, hdt⟩, distinctKeysKids_insertK key nb ?_ kids hdk⟩
      · rw [(keysOf_insertK_perm key nb kids).nodup_iff, List.nodup_cons]
        exact ⟨(hasKey_false_iff key kids).mp hh, hnd⟩
      · match tmpl, hdt, ht with
        | some t, hdt, ht =>
          simp only [fillTmpl, Option.some.injEq] at ht
          have := distinctKeys_fill t d w' hdt
          rw [ht] at this
          exact this
theorem distinctKeysKids_fill : ∀ (kids : List (Key × Agg)) (targets : List (Key × Val)) (d : Datum),
    distinctKeysKids kids = true → distinctKeysKids (fillKids kids targets d).1 = true
  | [], _, _, _ => by simp [fillKids, distinctKeysKids]
  | (k, a) :: rest, targets, d, hs => by
    simp only [distinctKeysKids, Bool.and_eq_true] at hs
    simp only [fillKids]
    split
    · simp only [distinctKeysKids, Bool.and_eq_true]
      exact ⟨hs.1, distinctKeysKids_fill rest targets d hs.2⟩
    · rename_i w' _
      split
      · simp only [distinctKeysKids, Bool.and_eq_true]
        exact ⟨distinctKeys_fill a d w' hs.1, distinctKeysKids_fill rest targets d hs.2⟩
      · simp only [distinctKeysKids, Bool.and_eq_true]
        exact ⟨distinctKeys_fill a d w' hs.1, hs.2⟩
end

/-! ### streams -/

theorem skip_on_fault' : ∀ (s : List (Datum × Val)) (t : Agg), singlePath t = true → distinctKeys t = true →
    fillAll t s = fillAll t (survivors t s) ∧ fillsOk t (survivors t s) = true
  | [], t, _, _ => by simp [survivors, fillsOk]
  | dw :: rest, t, hs, hd => by
    have ih := skip_on_fault' rest (fill t dw.1 dw.2).1 (singlePath_fill' t dw.1 dw.2 hs)
      (distinctKeys_fill t dw.1 dw.2 hd)
    simp only [survivors]
    by_cases hok : (fill t dw.1 dw.2).2.isOk = true
    · simp only [hok, if_true]
      simp only [fillAll, List.foldl_cons, fillsOk, hok, Bool.true_and] at ih ⊢
      exact ih
    · have hne : (fill t dw.1 dw.2).2 ≠ .ok := by
        intro h; rw [h] at hok; exact hok rfl
      have hrb := rollback t dw.1 dw.2 hs hd hne
      simp only [hok]
      simp only [Bool.false_eq_true, if_false]
      have h1 : fillAll t (dw :: rest) = fillAll t rest := by
        simp only [fillAll, List.foldl_cons, hrb]
      rw [hrb] at ih
      rw [h1, hrb]
      exact ih

end Rb
end Hg
