/-
  Hg.Proofs.HistoryAux — the pool invariant behind `inv_history` and its preservation by each
  operation of a history (helpers in `Hg.Hist`).
-/
import Hg.Model.History
import Hg.Proofs.All
import Hg.Proofs.FillLaws
import Hg.Proofs.InvNp

namespace Hg.Hist

/-! ### `hasTmpl` under scaling (not needed by the single-operation theorems, needed here because a
scaled tree can be an operand of a later `+`) -/

theorem hasTmpl_scale (f : Val) (t : Agg) (h : hasTmpl t = true) : hasTmpl (scale t f) = true := by
  induction t using Agg.ind with
  | h k e st tmpl kids _ ihk =>
    rw [hasTmpl_node] at h
    obtain ⟨h1, h2, h3⟩ := h
    have hk : ∀ (l : List (Key × Agg)), (∀ p ∈ l, hasTmpl p.2 = true → hasTmpl (scale p.2 f) = true) →
        (∀ p ∈ l, hasTmpl p.2 = true) → ∀ p ∈ scaleKids l f, hasTmpl p.2 = true := by
      intro l
      induction l with
      | nil => intro _ _ p hp; simp [scaleKids] at hp
      | cons x r ih =>
        obtain ⟨key, a⟩ := x
        intro hi hl p hp
        simp only [scaleKids, List.mem_cons] at hp
        rcases hp with rfl | hp
        · exact hi (key, a) (List.mem_cons_self ..) (hl (key, a) (List.mem_cons_self ..))
        · exact ih (fun q hq => hi q (List.mem_cons_of_mem _ hq))
            (fun q hq => hl q (List.mem_cons_of_mem _ hq)) p hp
    rw [scale, hasTmpl_node]
    exact ⟨h1, h2, hk kids ihk h3⟩

/-! ### the invariant of one member of the pool -/

/-- what every member of the pool satisfies: the bookkeeping invariants, well-formedness, live
templates, and the static structure of the empty tree the pool started from -/
structure Ok (z a : Agg) : Prop where
  inv : inv a = true
  good : good a = true
  tmpl : hasTmpl a = true
  base : sameBase z a = true

theorem ok_start (z : Agg) (hz : isZeroTree z = true) (hg : good z = true) (ht : hasTmpl z = true) :
    Ok z z :=
  ⟨InvB.inv_of_zero z hg hz, hg, ht, sameBase_refl z hg⟩

/-- two members of the pool have the same static structure -/
theorem ok_sameBase {z a b : Agg} (hg : good z = true) (ha : Ok z a) (hb : Ok z b) :
    sameBase a b = true :=
  sameBase_trans a z b ha.good hg hb.good (sameBase_symm z a hg ha.good ha.base) hb.base

theorem ok_fill {z a : Agg} (hg : good z = true) (ha : Ok z a) (d : Datum) (w : Val)
    (hw : w.okWeight = true) (hok : (fill a d w).2.isOk = true) (hg' : good (fill a d w).1 = true) :
    Ok z (fill a d w).1 := by
  have hok' : (fill a d w).2 = .ok := (InvB.isOk_iff _).mp hok
  exact ⟨inv_fill a d w ha.good ha.inv hw hg' hok', hg', hasTmpl_fill a d w ha.tmpl,
    sameBase_trans z a _ hg ha.good hg' ha.base (sameBase_fill a d w ha.good hok')⟩

/-- a vectorised fill under the executable hypotheses of C03 (`okStep`): it returns a state, and that state is the
row-wise state `fillAll a (rows.zip ws)` up to zero-weight bins (`Np.main_all`); `inv`, `good`, `hasTmpl` and the static
structure are transported from the row-wise state along `Np.Zrel` (`Zrel_inv`, `Frame.Zrel_transfer`) -/
theorem ok_fillNp {z a : Agg} (hg : good z = true) (ha : Ok z a) (rows : List Datum) (ws : List Val)
    (hlen : rows.length = ws.length) (hw : nonNegW ws = true) (hrun : goodRun a (rows.zip ws) = true)
    (hs : noNanForSums a rows = true) (hq : qtysOk a rows = true) :
    ∃ a', fillNp a rows ws = some a' ∧ Ok z a' := by
  obtain ⟨a', h1, h2⟩ := Np.main_all a rows ws hlen hw hrun ha.tmpl hs hq
  have gr : good (fillAll a (rows.zip ws)) = true := good_fillAll a _ hrun
  have tr : hasTmpl (fillAll a (rows.zip ws)) = true := hasTmpl_fillAll a _ ha.tmpl
  have ir : inv (fillAll a (rows.zip ws)) = true := InvB.inv_fillAll_aux _ a ha.good ha.inv hrun
  have br : sameBase a (fillAll a (rows.zip ws)) = true := sameBase_fillAll a _ hrun
  obtain ⟨ga, ta, ba⟩ := Frame.Zrel_transfer h2 gr tr
  exact ⟨a', h1, Zrel_inv h2 gr ir, ga, ta,
    sameBase_trans z a a' hg ha.good ga ha.base
      (sameBase_trans a _ a' ha.good gr ga br ba)⟩

theorem ok_addRaw {z a b : Agg} (hg : good z = true) (ha : Ok z a) (hb : Ok z b) : Ok z (addRaw a b) := by
  have hab := ok_sameBase hg ha hb
  obtain ⟨g, sb⟩ := good_addRaw a b ha.good hb.good ha.tmpl hb.tmpl hab
  exact ⟨inv_addRaw a b ha.good hb.good ha.tmpl hb.tmpl hab ha.inv hb.inv, g,
    hasTmpl_addRaw a b ha.tmpl hb.tmpl, sameBase_trans z a _ hg ha.good g ha.base sb⟩

theorem add_eq {z a b : Agg} (hg : good z = true) (ha : Ok z a) (hb : Ok z b) :
    add a b = some (addRaw a b) :=
  add_eq_some_addRaw a b ha.good hb.good ha.tmpl hb.tmpl (ok_sameBase hg ha hb)

theorem ok_add {z a b c : Agg} (hg : good z = true) (ha : Ok z a) (hb : Ok z b) (h : add a b = some c) :
    Ok z c := by
  rw [add_eq hg ha hb] at h
  cases h
  exact ok_addRaw hg ha hb

theorem ok_iadd {z a b : Agg} (hg : good z = true) (ha : Ok z a) (hb : Ok z b) : Ok z (iadd a b).1 := by
  rw [iadd, add_eq hg ha hb]
  exact ok_addRaw hg ha hb

theorem ok_zero {z a : Agg} (hg : good z = true) (ha : Ok z a) : Ok z (zero a) := by
  obtain ⟨g, _, sb⟩ := good_zero a ha.good
  exact ⟨inv_zero a ha.good, g, hasTmpl_zero a ha.tmpl, sameBase_trans z a _ hg ha.good g ha.base sb⟩

theorem ok_mul {z a : Agg} (hg : good z = true) (ha : Ok z a) (f : Val)
    (hf : (!f.pos || f.isFin) = true) : Ok z (mul a f) := by
  by_cases hp : f.pos = true
  · have hpf : f.posFin := InvB.okWeight_pos (w := f) hf hp
    obtain ⟨g, sb⟩ := good_scale a f ha.good hpf
    rw [mul, if_pos hp]
    exact ⟨inv_scale a f ha.good ha.inv hpf, g, hasTmpl_scale f a ha.tmpl,
      sameBase_trans z a _ hg ha.good g ha.base sb⟩
  · rw [mul, if_neg hp]
    exact ok_zero hg ha

theorem ok_copy {z a c : Agg} (ha : Ok z a) (h : copy a = some c) : Ok z c := by
  rw [copy, add_zero_right a ha.good] at h
  cases h
  exact ha

/-! ### the pool -/

/-- a fill step lands in a `good` state (no constraint on the other operations; for a vectorised fill the `goodRun`
conjunct of `okStep` already says that every intermediate row-wise state is `good`) -/
def goodStep (pool : List Agg) : HOp → Bool
  | .fill i d w =>
    match pool[i]? with
    | some a => good (fill a d w).1
    | none => true
  | _ => true

theorem ok_set {z : Agg} {pool : List Agg} (hp : ∀ a ∈ pool, Ok z a) (i : Nat) {x : Agg} (hx : Ok z x) :
    ∀ a ∈ pool.set i x, Ok z a := by
  intro a ha
  rcases List.mem_or_eq_of_mem_set ha with h | h
  · exact hp a h
  · exact h ▸ hx

theorem ok_push {z : Agg} {pool : List Agg} (hp : ∀ a ∈ pool, Ok z a) {x : Agg} (hx : Ok z x) :
    ∀ a ∈ pool ++ [x], Ok z a := by
  intro a ha
  rcases List.mem_append.1 ha with h | h
  · exact hp a h
  · rw [List.mem_singleton.1 h]; exact hx

/-- one admissible step keeps every member of the pool `Ok` -/
theorem ok_step {z : Agg} (hg : good z = true) {pool : List Agg} (hp : ∀ a ∈ pool, Ok z a) (op : HOp)
    (hok : okStep pool op = true) (hgs : goodStep pool op = true) : ∀ a ∈ stepH pool op, Ok z a := by
  cases op with
  | fill i d w =>
    simp only [stepH, okStep, goodStep] at hok hgs ⊢
    cases hi : pool[i]? with
    | none => simpa [hi] using hp
    | some a =>
      rw [hi] at hok hgs
      simp only [Bool.and_eq_true] at hok
      exact ok_set hp i (ok_fill hg (hp a (List.mem_of_getElem? hi)) d w hok.1 hok.2 hgs)
  | fillnp i rows ws =>
    simp only [stepH, okStep] at hok ⊢
    cases hi : pool[i]? with
    | none => simpa [hi] using hp
    | some a =>
      rw [hi] at hok
      simp only [Bool.and_eq_true, decide_eq_true_eq] at hok
      obtain ⟨⟨⟨⟨hlen, hw⟩, hrun⟩, hs⟩, hq⟩ := hok
      obtain ⟨a', h1, h2⟩ := ok_fillNp hg (hp a (List.mem_of_getElem? hi)) rows ws hlen hw hrun hs hq
      simp only [h1]
      exact ok_set hp i h2
  | add i j =>
    simp only [stepH]
    cases hi : pool[i]? with
    | none => simpa using hp
    | some a =>
      cases hj : pool[j]? with
      | none => simpa using hp
      | some b =>
        simp only []
        cases hc : add a b with
        | none => simpa using hp
        | some c =>
          exact ok_push hp (ok_add hg (hp a (List.mem_of_getElem? hi)) (hp b (List.mem_of_getElem? hj)) hc)
  | iadd i j =>
    simp only [stepH]
    cases hi : pool[i]? with
    | none => simpa using hp
    | some a =>
      cases hj : pool[j]? with
      | none => simpa using hp
      | some b =>
        exact ok_set hp i (ok_iadd hg (hp a (List.mem_of_getElem? hi)) (hp b (List.mem_of_getElem? hj)))
  | mul i f =>
    simp only [stepH, okStep] at hok ⊢
    cases hi : pool[i]? with
    | none => simpa using hp
    | some a => exact ok_push hp (ok_mul hg (hp a (List.mem_of_getElem? hi)) f hok)
  | zero i =>
    simp only [stepH]
    cases hi : pool[i]? with
    | none => simpa using hp
    | some a => exact ok_push hp (ok_zero hg (hp a (List.mem_of_getElem? hi)))
  | copy i =>
    simp only [stepH]
    cases hi : pool[i]? with
    | none => simpa using hp
    | some a =>
      simp only []
      cases hc : copy a with
      | none => simpa using hp
      | some c => exact ok_push hp (ok_copy (hp a (List.mem_of_getElem? hi)) hc)

end Hg.Hist
