/-
  Hg.Proofs.ScaleLaws — C08, structural scaling laws: `mul_nonpos`, `scale_one`, `scale_scale`,
  `good_scale`.
-/
import Hg.Proofs.KeyFacts
import Hg.Proofs.TreeLaws1
import Mathlib.Tactic.Ring
import Mathlib.Tactic.Positivity

namespace Hg
namespace Sc
open KF

theorem val_one : (1 : Val) = Val.fin 1 := by
  show Val.fin ((1 : Nat) : Rat) = Val.fin 1
  simp

theorem one_mul_val (e : Val) : (1 : Val) * e = e := by
  rw [val_one]
  show Val.mul (Val.fin 1) e = e
  cases e <;> simp [Val.mul, Val.infTimes]

theorem mul_fin (a b : Rat) : Val.fin a * Val.fin b = Val.fin (a * b) := rfl

theorem leafMul_nonleaf (k : Kind) (hk : k.isLeaf = false) (s : St) (f : Val) : leafMul k s f = s := by
  cases k <;> simp [Kind.isLeaf] at hk <;> simp [leafMul]

theorem good_entries_fin (k : Kind) (e : Val) (st : St) (tmpl : Option Agg) (kids : List (Key × Agg))
    (h : good (.node k e st tmpl kids) = true) : ∃ q : Rat, e = .fin q ∧ 0 ≤ q := by
  simp only [good, Bool.and_eq_true] at h
  obtain ⟨⟨⟨⟨⟨h, _⟩, _⟩, _⟩, _⟩, _⟩ := h
  split at h
  · simp only [leafGood, leafGoodCore, Bool.and_eq_true] at h
    obtain ⟨⟨_, h⟩, _⟩ := h
    split at h
    · rename_i q
      simp only [Bool.and_eq_true, decide_eq_true_eq] at h
      exact ⟨q, rfl, h.1⟩
    · exact absurd h (by simp)
  · simp only [Bool.and_eq_true] at h
    obtain ⟨_, h⟩ := h
    split at h
    · rename_i q
      simp only [decide_eq_true_eq] at h
      exact ⟨q, rfl, h⟩
    · exact absurd h (by simp)

/-- the node-local part of `good` -/
def headOk (k : Kind) (e : Val) (st : St) : Bool :=
  if k.isLeaf then leafGood k e st
  else St.fits k st && (match e with | .fin q => decide (0 ≤ q) | _ => false)

/-- the `contentType` / `bins:name` bookkeeping of sparse containers -/
def ctypeOk (k : Kind) (tmpl : Option Agg) : Bool :=
  match k, tmpl with
  | .sparse _ _ _ ctype cname, some t => ctype == t.typeName && cname == t.qtyName
  | .categorize _ ctype cname, some t => ctype == t.typeName && cname == t.qtyName
  | _, _ => true

theorem good_node (k : Kind) (e : Val) (st : St) (tmpl : Option Agg) (kids : List (Key × Agg)) :
    good (.node k e st tmpl kids) =
      (headOk k e st && k.layoutOk (keysOf kids) && goodKids kids && goodTmpl tmpl &&
        (if k.isSparse then sameBaseTmpl tmpl kids else true) && ctypeOk k tmpl) := by
  simp only [good, headOk, ctypeOk]
  cases k <;> cases tmpl <;> rfl

theorem good_parts (k : Kind) (e : Val) (st : St) (tmpl : Option Agg) (kids : List (Key × Agg))
    (h : good (.node k e st tmpl kids) = true) :
    headOk k e st = true ∧ k.layoutOk (keysOf kids) = true ∧ goodKids kids = true ∧
    goodTmpl tmpl = true ∧ (if k.isSparse then sameBaseTmpl tmpl kids else true) = true ∧
    ctypeOk k tmpl = true := by
  rw [good_node] at h
  simp only [Bool.and_eq_true] at h
  obtain ⟨⟨⟨⟨⟨h1, h2⟩, h3⟩, h4⟩, h5⟩, h6⟩ := h
  exact ⟨h1, h2, h3, h4, h5, h6⟩

theorem headOk_leaf (k : Kind) (e : Val) (st : St) (hl : k.isLeaf = true) :
    headOk k e st = leafGood k e st := by simp [headOk, hl]

/-! ### scale_one -/

mutual
theorem scale_one' : ∀ (t : Agg), good t = true → scale t 1 = t
  | .node k e st tmpl kids, hg => by
    have hk := (good_parts _ _ _ _ _ hg).2.2.1
    have h1 := (good_parts _ _ _ _ _ hg).1
    simp only [scale, scaleKids_one kids hk, one_mul_val]
    cases hl : k.isLeaf with
    | false => rw [leafMul_nonleaf k hl]
    | true =>
      rw [headOk_leaf k e st hl] at h1
      have := leafMul_one k e st hl h1
      simp only [Prod.mk.injEq] at this
      rw [this.2]
theorem scaleKids_one : ∀ (l : List (Key × Agg)), goodKids l = true → scaleKids l 1 = l
  | [], _ => by simp [scaleKids]
  | (k, a) :: rest, h => by
    simp only [goodKids, Bool.and_eq_true] at h
    simp only [scaleKids, scale_one' a h.1, scaleKids_one rest h.2]
end

/-! ### scale_scale -/

mutual
theorem scale_scale' (f g : Val) (hf : f.posFin) (hgp : g.posFin) :
    ∀ (t : Agg), good t = true → scale (scale t f) g = scale t (f * g)
  | .node k e st tmpl kids, hg => by
    have hk := (good_parts _ _ _ _ _ hg).2.2.1
    have h1 := (good_parts _ _ _ _ _ hg).1
    simp only [scale, scaleKids_scale f g hf hgp kids hk]
    cases hl : k.isLeaf with
    | false =>
      rw [leafMul_nonleaf k hl, leafMul_nonleaf k hl, leafMul_nonleaf k hl]
      obtain ⟨q, rfl, _⟩ := good_entries_fin _ _ _ _ _ hg
      obtain ⟨a, rfl, _⟩ := hf
      obtain ⟨b, rfl, _⟩ := hgp
      simp only [mul_fin]
      rw [show b * (a * q) = a * b * q by ring]
    | true =>
      rw [headOk_leaf k e st hl] at h1
      have := leafMul_mul k e st f g hl h1 hf hgp
      simp only [Prod.mk.injEq] at this
      rw [this.1, this.2]
theorem scaleKids_scale (f g : Val) (hf : f.posFin) (hgp : g.posFin) :
    ∀ (l : List (Key × Agg)), goodKids l = true → scaleKids (scaleKids l f) g = scaleKids l (f * g)
  | [], _ => by simp [scaleKids]
  | (k, a) :: rest, h => by
    simp only [goodKids, Bool.and_eq_true] at h
    simp only [scaleKids, scale_scale' f g hf hgp a h.1, scaleKids_scale f g hf hgp rest h.2]
end

/-! ### good_scale -/

theorem keysOf_scaleKids (f : Val) : ∀ (l : List (Key × Agg)), keysOf (scaleKids l f) = keysOf l
  | [] => rfl
  | (k, a) :: rest => by simp only [scaleKids, keysOf_cons, keysOf_scaleKids f rest]

theorem lookupK_scaleKids (f : Val) (key : Key) : ∀ (l : List (Key × Agg)),
    lookupK key (scaleKids l f) = (lookupK key l).map (fun a => scale a f)
  | [] => rfl
  | (k, a) :: rest => by
    simp only [scaleKids, lookupK]
    split
    · rfl
    · exact lookupK_scaleKids f key rest

theorem lookupK_of_mem_nodup {α : Type} (key : Key) (a : α) : ∀ (l : List (Key × α)),
    (keysOf l).Nodup → (key, a) ∈ l → lookupK key l = some a
  | [], _, h => by cases h
  | (k, b) :: rest, hnd, h => by
    rw [keysOf_cons, List.nodup_cons] at hnd
    simp only [lookupK]
    rcases List.mem_cons.mp h with h | h
    · cases h; simp
    · have hne : ¬ k = key := by
        intro hk; subst hk
        exact hnd.1 (List.mem_map.mpr ⟨(k, a), h, rfl⟩)
      simp only [hne, if_false]
      exact lookupK_of_mem_nodup key a rest hnd.2 h

/-- what the induction provides about every child -/
def KidOk (f : Val) (l : List (Key × Agg)) : Prop :=
  ∀ p ∈ l, good p.2 = true ∧ good (scale p.2 f) = true ∧ sameBase p.2 (scale p.2 f) = true

theorem KidOk.tail {f : Val} {p : Key × Agg} {l : List (Key × Agg)} (h : KidOk f (p :: l)) : KidOk f l :=
  fun q hq => h q (List.mem_cons_of_mem _ hq)

theorem goodKids_scaleKids (f : Val) : ∀ (l : List (Key × Agg)), KidOk f l → goodKids (scaleKids l f) = true
  | [], _ => rfl
  | (k, a) :: rest, h => by
    simp only [scaleKids, goodKids, Bool.and_eq_true]
    exact ⟨(h (k, a) List.mem_cons_self).2.1, goodKids_scaleKids f rest h.tail⟩

theorem sameBaseZip_scaleKids (f : Val) : ∀ (l : List (Key × Agg)), KidOk f l →
    sameBaseZip l (scaleKids l f) = true
  | [], _ => by simp [scaleKids, sameBaseZip]
  | (k, a) :: rest, h => by
    simp only [scaleKids, sameBaseZip, Bool.and_eq_true, decide_eq_true_eq]
    exact ⟨⟨trivial, (h (k, a) List.mem_cons_self).2.2⟩, sameBaseZip_scaleKids f rest h.tail⟩

theorem sameBaseBins_scaleKids (f : Val) (t : Agg) (ht : good t = true) : ∀ (l : List (Key × Agg)),
    KidOk f l → sameBaseBins t l = true → sameBaseBins t (scaleKids l f) = true
  | [], _, _ => by simp [scaleKids, sameBaseBins]
  | (k, a) :: rest, h, hb => by
    simp only [sameBaseBins, Bool.and_eq_true] at hb
    simp only [scaleKids, sameBaseBins, Bool.and_eq_true]
    refine ⟨?_, sameBaseBins_scaleKids f t ht rest h.tail hb.2⟩
    have ha := h (k, a) List.mem_cons_self
    by_cases hk : k = .nanflow
    · simp [hk]
    · have hb1 := hb.1
      simp only [hk, if_false] at hb1 ⊢
      exact sameBase_trans t a (scale a f) ht ha.1 ha.2.1 hb1 ha.2.2

theorem sameBaseFlow_scaleKids (f : Val) (kids : List (Key × Agg)) (hnd : (keysOf kids).Nodup)
    (hk : KidOk f kids) : ∀ (xs : List (Key × Agg)), (∀ p ∈ xs, p ∈ kids) →
    sameBaseFlow xs (scaleKids kids f) = true
  | [], _ => by simp [sameBaseFlow]
  | (k, a) :: rest, hsub => by
    simp only [sameBaseFlow, Bool.and_eq_true]
    refine ⟨?_, sameBaseFlow_scaleKids f kids hnd hk rest (fun p hp => hsub p (List.mem_cons_of_mem _ hp))⟩
    by_cases hkn : k = .nanflow
    · subst hkn
      have hm := hsub (.nanflow, a) List.mem_cons_self
      simp only [if_true, lookupK_scaleKids, lookupK_of_mem_nodup .nanflow a kids hnd hm, Option.map_some]
      exact (hk _ hm).2.2
    · simp [hkn]

theorem headOk_scale (k : Kind) (e : Val) (st : St) (f : Val) (hf : f.posFin) (h : headOk k e st = true) :
    headOk k (f * e) (leafMul k st f) = true := by
  cases hl : k.isLeaf with
  | true =>
    rw [headOk_leaf _ _ _ hl] at h ⊢
    exact leafGood_mul k e st f hl h hf
  | false =>
    rw [leafMul_nonleaf k hl]
    simp only [headOk, hl, Bool.false_eq_true, if_false, Bool.and_eq_true] at h ⊢
    refine ⟨h.1, ?_⟩
    obtain ⟨a, rfl, ha⟩ := hf
    have h2 := h.2
    split at h2
    · rename_i q
      simp only [decide_eq_true_eq] at h2
      simp only [mul_fin, decide_eq_true_eq]
      positivity
    · exact absurd h2 (by simp)

mutual
theorem good_scale' (f : Val) (hf : f.posFin) : ∀ (t : Agg), good t = true →
    good (scale t f) = true ∧ sameBase t (scale t f) = true
  | .node k e st tmpl kids, hg => by
    obtain ⟨h1, h2, h3, h4, h5, h6⟩ := good_parts _ _ _ _ _ hg
    have hko : KidOk f kids := goodKids_scale f hf kids h3
    have hnd := good_nodup _ _ _ _ _ hg
    have hbt : k.isSparse = true → sameBaseTmpl tmpl (scaleKids kids f) = true := by
      intro hs
      simp only [hs, if_true] at h5
      cases tmpl with
      | none => simp [sameBaseTmpl]
      | some t =>
        simp only [goodTmpl, Bool.and_eq_true] at h4
        simp only [sameBaseTmpl] at h5 ⊢
        exact sameBaseBins_scaleKids f t h4.1 kids hko h5
    constructor
    · simp only [scale]
      rw [good_node]
      simp only [Bool.and_eq_true]
      refine ⟨⟨⟨⟨⟨headOk_scale k e st f hf h1, ?_⟩, goodKids_scaleKids f kids hko⟩, h4⟩, ?_⟩, h6⟩
      · rw [keysOf_scaleKids]; exact h2
      · cases hs : k.isSparse with
        | false => rfl
        | true => simp only [if_true]; exact hbt hs
    · simp only [scale, sameBase, Bool.and_eq_true, decide_eq_true_eq]
      refine ⟨⟨trivial, trivial⟩, ?_⟩
      cases hs : k.isSparse with
      | false =>
        simp only [Bool.false_eq_true, if_false]
        exact sameBaseZip_scaleKids f kids hko
      | true =>
        simp only [hs, if_true] at h5
        simp only [if_true, Bool.and_eq_true]
        exact ⟨⟨sameBaseFlow_scaleKids f kids hnd hko kids (fun _ h => h), h5⟩, hbt hs⟩
theorem goodKids_scale (f : Val) (hf : f.posFin) : ∀ (l : List (Key × Agg)), goodKids l = true → KidOk f l
  | [], _ => fun _ h => by cases h
  | (k, a) :: rest, h => by
    simp only [goodKids, Bool.and_eq_true] at h
    intro p hp
    rcases List.mem_cons.mp hp with rfl | hp
    · exact ⟨h.1, good_scale' f hf a h.1⟩
    · exact goodKids_scale f hf rest h.2 p hp
end

end Sc

/-! ### main statements -/

theorem mul_nonpos (t : Agg) (f : Val) (h : f.pos = false) : mul t f = zero t := by
  simp [mul, h]

theorem scale_one (t : Agg) (hg : good t = true) : scale t 1 = t := Sc.scale_one' t hg

theorem scale_scale (t : Agg) (f g : Val) (hg : good t = true) (hf : f.posFin) (hgp : g.posFin) :
    scale (scale t f) g = scale t (f * g) := Sc.scale_scale' f g hf hgp t hg

theorem good_scale (t : Agg) (f : Val) (hg : good t = true) (hf : f.posFin) :
    good (scale t f) = true ∧ sameBase t (scale t f) = true := Sc.good_scale' f hf t hg

end Hg
