/-
  Hg.Proofs.NpLeafAvg — number-level part of `leafNp_fillAll`: the batch formulas of
  `Average._numpy` / `Deviate._numpy` (weighted mean / variance of the batch merged into the old
  state) equal the row-wise Tony-Finch updates.
-/
import Hg.Model.Np
import Hg.Proofs.LeafAux

set_option linter.unusedSimpArgs false
set_option linter.unusedVariables false

namespace Hg.NpLeaf

open Val

/-! ### small facts about `Val` -/

theorem pos_fin (r : Rat) : (fin r).pos = decide (0 < r) := rfl

theorem fin_mul_div_self {q : Rat} (hq : 0 < q) (v : Val) : (fin q * v) / fin q = v := by
  cases v <;> simp [div_eq, Val.div, mul_eq, Val.mul, infTimes, hq, hq.ne']

theorem isFin_mul_fin {q : Rat} (hq : 0 < q) (v : Val) : (v * fin q).isFin = v.isFin := by
  rw [Val.mul_comm, isFin_fin_mul hq]

theorem add_eq_pinf {a b : Val} (h : a + b = pinf) : a = pinf ∨ b = pinf := by
  cases a <;> cases b <;> simp_all [add_eq, Val.add]

theorem add_eq_ninf {a b : Val} (h : a + b = ninf) : a = ninf ∨ b = ninf := by
  cases a <;> cases b <;> simp_all [add_eq, Val.add]

theorem mul_fin_eq_pinf {q : Rat} (hq : 0 < q) {x : Val} (h : x * fin q = pinf) : x = pinf := by
  cases x <;> simp_all [mul_eq, Val.mul, infTimes, hq.ne']

theorem mul_fin_eq_ninf {q : Rat} (hq : 0 < q) {x : Val} (h : x * fin q = ninf) : x = ninf := by
  cases x <;> simp_all [mul_eq, Val.mul, infTimes, hq.ne']

theorem div_fin_cases {q : Rat} (hq : 0 < q) (s : Val) :
    (s / fin q = nan ∧ s = nan) ∨ (s / fin q = pinf ∧ s = pinf) ∨ (s / fin q = ninf ∧ s = ninf) ∨
      ∃ a, s = fin a ∧ s / fin q = fin (a / q) := by
  cases s <;> simp [div_eq, Val.div, hq, hq.ne']

/-! ### the positive-weight part of a batch -/

/-- every weight of the batch is a finite number -/
def FinW (l : List (Val × Val)) : Prop := ∀ p ∈ l, ∃ r, p.2 = fin r

theorem FinW.tail {p : Val × Val} {l : List (Val × Val)} (h : FinW (p :: l)) : FinW l :=
  fun x hx => h x (List.mem_cons_of_mem _ hx)

/-- the rows with positive weight, the weight as a rational -/
def posPart : List (Val × Val) → List (Val × Rat)
  | [] => []
  | p :: l =>
    match p.2 with
    | .fin r => if 0 < r then (p.1, r) :: posPart l else posPart l
    | _ => posPart l

theorem posPart_cons_pos (x : Val) {r : Rat} (hr : 0 < r) (l : List (Val × Val)) :
    posPart ((x, fin r) :: l) = (x, r) :: posPart l := by
  simp [posPart, hr]

theorem posPart_cons_neg (x : Val) {r : Rat} (hr : ¬ 0 < r) (l : List (Val × Val)) :
    posPart ((x, fin r) :: l) = posPart l := by
  simp [posPart, hr]

/-- all weights positive -/
def PosL (L : List (Val × Rat)) : Prop := ∀ p ∈ L, 0 < p.2

theorem posL_posPart (l : List (Val × Val)) : PosL (posPart l) := by
  induction l with
  | nil => intro p hp; cases hp
  | cons p l ih =>
    obtain ⟨x, w⟩ := p
    cases w with
    | fin r =>
      by_cases hr : 0 < r
      · rw [posPart_cons_pos x hr]
        intro p hp
        rcases List.mem_cons.1 hp with rfl | hp
        · exact hr
        · exact ih p hp
      · rw [posPart_cons_neg x hr]; exact ih
    | _ => exact ih

theorem PosL.tail {p : Val × Rat} {L : List (Val × Rat)} (h : PosL (p :: L)) : PosL L :=
  fun x hx => h x (List.mem_cons_of_mem _ hx)

theorem PosL.head {p : Val × Rat} {L : List (Val × Rat)} (h : PosL (p :: L)) : 0 < p.2 :=
  h p (List.mem_cons_self ..)

/-- `Σ g x w` over a list of positive rows -/
def sumP (g : Val → Rat → Val) : List (Val × Rat) → Val
  | [] => fin 0
  | p :: L => g p.1 p.2 + sumP g L

/-- a conditional sum over the batch is the sum over its positive part -/
theorem foldl_selPos (g : Val → Val → Val) (l : List (Val × Val)) (hl : FinW l) (a : Val) :
    l.foldl (fun acc p => if selPos p.1 p.2 then acc + g p.1 p.2 else acc) a
      = a + sumP (fun x r => g x (fin r)) (posPart l) := by
  induction l generalizing a with
  | nil => simp [posPart, sumP]
  | cons p l ih =>
    obtain ⟨x, w⟩ := p
    obtain ⟨r, hr⟩ := hl (x, w) (List.mem_cons_self ..)
    simp only at hr
    subst hr
    rw [List.foldl_cons, ih hl.tail]
    by_cases h0 : 0 < r
    · rw [posPart_cons_pos x h0]
      simp only [selPos, pos_fin, h0, decide_true, if_true, sumP, Val.add_assoc]
    · rw [posPart_cons_neg x h0]
      simp only [selPos, pos_fin, h0, decide_false, Bool.false_eq_true, if_false]

theorem any_selPos (l : List (Val × Val)) (hl : FinW l) :
    l.any (fun p => selPos p.1 p.2) = !(posPart l).isEmpty := by
  induction l with
  | nil => rfl
  | cons p l ih =>
    obtain ⟨x, w⟩ := p
    obtain ⟨r, hr⟩ := hl (x, w) (List.mem_cons_self ..)
    simp only at hr
    subst hr
    rw [List.any_cons, ih hl.tail]
    by_cases h0 : 0 < r
    · rw [posPart_cons_pos x h0]; simp [selPos, pos_fin, h0]
    · rw [posPart_cons_neg x h0]; simp [selPos, pos_fin, h0]

/-! ### the sums of a positive batch -/

/-- `Σ w` -/
def SW : List (Val × Rat) → Rat
  | [] => 0
  | p :: L => p.2 + SW L

/-- `Σ x·w` -/
def SXW (L : List (Val × Rat)) : Val := sumP (fun x r => x * fin r) L

/-- `Σ w·(x-μ)²` -/
def SSq (mu : Val) (L : List (Val × Rat)) : Val :=
  sumP (fun x r => fin r * ((x - mu) * (x - mu))) L

theorem SW_nonneg {L : List (Val × Rat)} (h : PosL L) : 0 ≤ SW L := by
  induction L with
  | nil => exact le_refl _
  | cons p L ih =>
    have := h.head
    have := ih h.tail
    simp only [SW]; linarith

theorem SW_pos {p : Val × Rat} {L : List (Val × Rat)} (h : PosL (p :: L)) : 0 < SW (p :: L) := by
  have := h.head
  have := SW_nonneg h.tail
  simp only [SW]; linarith

theorem sumP_w (L : List (Val × Rat)) : sumP (fun _ r => fin r) L = fin (SW L) := by
  induction L with
  | nil => rfl
  | cons p L ih => simp [sumP, SW, ih]

/-! ### the row-wise mean: closed form -/

/-- the row-wise mean updates over a positive batch, starting from a non-empty state -/
def meanSeq (q : Rat) (m : Val) : List (Val × Rat) → Rat × Val
  | [] => (q, m)
  | p :: L => meanSeq (q + p.2) (wmean q m p.2 p.1) L

theorem meanSeq_eq (L : List (Val × Rat)) (hL : PosL L) (q : Rat) (hq : 0 < q) (m : Val) :
    meanSeq q m L = (q + SW L, (fin q * m + SXW L) / fin (q + SW L)) := by
  induction L generalizing q m with
  | nil => simp [meanSeq, SW, SXW, sumP, fin_mul_div_self hq]
  | cons p L ih =>
    obtain ⟨x, w⟩ := p
    have hw : 0 < w := hL.head
    have hqw : 0 < q + w := by linarith
    rw [meanSeq, ih hL.tail _ hqw]
    simp only [wmean, fin_mul_div_cancel hqw, SW, SXW, sumP, Rat.add_assoc, Val.add_assoc,
      Val.mul_comm x (fin w)]

/-! ### the batch quantities in terms of the positive part -/

theorem wtot_eq (xs ws : List Val) (hl : FinW (xs.zip ws)) :
    wtot xs ws selPos = fin (SW (posPart (xs.zip ws))) := by
  unfold wtot
  exact (foldl_selPos (fun _ w => w) _ hl 0).trans (by rw [Val.zero_add, sumP_w])

theorem wsum_eq (xs ws : List Val) (hl : FinW (xs.zip ws)) :
    wsum xs ws selPos = SXW (posPart (xs.zip ws)) := by
  unfold wsum
  exact (foldl_selPos (fun x w => x * w) _ hl 0).trans (by rw [Val.zero_add]; rfl)

theorem wsumSq_eq (xs ws : List Val) (mb : Val) (hl : FinW (xs.zip ws)) :
    wsumSq xs ws mb selPos = SSq mb (posPart (xs.zip ws)) := by
  unfold wsumSq
  exact (foldl_selPos (fun x w => w * ((x - mb) * (x - mb))) _ hl 0).trans
    (by rw [Val.zero_add]; rfl)

theorem anySel_eq (xs ws : List Val) (hl : FinW (xs.zip ws)) :
    anySel xs ws selPos = !(posPart (xs.zip ws)).isEmpty := by
  unfold anySel
  exact any_selPos _ hl

/-! ### Average -/

/-- the row-wise mean updates of `Average.fill` over the batch -/
def avgSeq (r : Val × Val) (l : List (Val × Val)) : Val × Val :=
  l.foldl (fun r p => if p.2.pos then meanUpdate r.1 r.2 p.1 p.2 else r) r

/-- the same over the positive part -/
def avgSeqP (r : Val × Val) (L : List (Val × Rat)) : Val × Val :=
  L.foldl (fun r p => meanUpdate r.1 r.2 p.1 (fin p.2)) r

theorem avgSeq_posPart (l : List (Val × Val)) (hl : FinW l) (r : Val × Val) :
    avgSeq r l = avgSeqP r (posPart l) := by
  induction l generalizing r with
  | nil => rfl
  | cons p l ih =>
    obtain ⟨x, w⟩ := p
    obtain ⟨c, hc⟩ := hl (x, w) (List.mem_cons_self ..)
    simp only at hc
    subst hc
    unfold avgSeq at ih ⊢
    rw [List.foldl_cons, ih hl.tail]
    by_cases h0 : 0 < c
    · rw [posPart_cons_pos x h0]
      simp [avgSeqP, pos_fin, h0]
    · rw [posPart_cons_neg x h0]
      simp [pos_fin, h0]

theorem avgSeqP_pos (L : List (Val × Rat)) (hL : PosL L) (q : Rat) (hq : 0 < q) (m : Val) :
    avgSeqP (fin q, m) L = (fin (meanSeq q m L).1, (meanSeq q m L).2) := by
  induction L generalizing q m with
  | nil => rfl
  | cons p L ih =>
    obtain ⟨x, w⟩ := p
    have hw : 0 < w := hL.head
    have hqw : 0 < q + w := by linarith
    unfold avgSeqP at ih ⊢
    rw [List.foldl_cons]
    simp only [meanUpdate_pos hq hw]
    rw [ih hL.tail _ hqw]
    rfl

/-- the pure part of `leafNp` for `Average` -/
def avgNp (e m : Val) (xs ws : List Val) : Val × Val :=
  let ca := e
  let ma := if e.isZero then (0 : Val) else m
  let cb := wtot xs ws selPos
  let e' := e + cb
  if e'.isInf then (e', .nan)
  else if e'.pos && anySel xs ws selPos then
    let mb := wsum xs ws selPos / cb
    (e', (ca * ma + (e' - ca) * mb) / e')
  else (e', m)

/-- the merged mean of the batch formula (old state of weight `q`, batch of weight `c`) -/
theorem batch_mean_pos {q c : Rat} (hq : 0 < q) (hc : 0 < c) (m s : Val) :
    (fin q * m + (fin (q + c) - fin q) * (s / fin c)) / fin (q + c)
      = (fin q * m + s) / fin (q + c) := by
  have : q + c - q = c := by ring
  rw [fin_sub_fin, this, fin_mul_div_cancel hc]

theorem batch_mean_zero {c : Rat} (hc : 0 < c) (s : Val) :
    (fin 0 * (0 : Val) + (fin (0 + c) - fin 0) * (s / fin c)) / fin (0 + c) = s / fin c := by
  have : 0 + c - 0 = c := by ring
  rw [fin_sub_fin, this, fin_mul_div_cancel hc]
  simp [zero_eq]

theorem avgNp_eq (q : Rat) (hq : 0 ≤ q) (m : Val) (xs ws : List Val) (hl : FinW (xs.zip ws)) :
    avgNp (fin q) m xs ws = avgSeq (fin q, m) (xs.zip ws) := by
  rw [avgSeq_posPart _ hl]
  unfold avgNp
  simp only [wtot_eq xs ws hl, wsum_eq xs ws hl, anySel_eq xs ws hl, fin_add_fin, isInf_fin,
    Bool.false_eq_true, if_false]
  have hP := posL_posPart (xs.zip ws)
  generalize posPart (xs.zip ws) = L at hP
  cases L with
  | nil => simp [SW, avgSeqP]
  | cons p L =>
    obtain ⟨x, w⟩ := p
    have hw : 0 < w := hP.head
    have hc : 0 < SW ((x, w) :: L) := SW_pos hP
    have hqc : 0 < q + SW ((x, w) :: L) := by linarith
    simp only [pos_fin, hqc, decide_true, List.isEmpty_cons, Bool.not_false, Bool.and_self,
      if_true, isZero_fin]
    by_cases h0 : q = 0
    · subst h0
      simp only [decide_true, if_true]
      rw [batch_mean_zero hc]
      unfold avgSeqP
      rw [List.foldl_cons]
      simp only [meanUpdate_zero hw]
      have := avgSeqP_pos L hP.tail (0 + w) (by linarith) x
      unfold avgSeqP at this
      rw [this, meanSeq_eq L hP.tail _ (by linarith)]
      simp only [SW, SXW, sumP, Rat.add_assoc, Val.mul_comm x (fin w), Rat.zero_add]
    · have hq' : 0 < q := lt_of_le_of_ne hq (Ne.symm h0)
      simp only [h0, decide_false, Bool.false_eq_true, if_false]
      rw [batch_mean_pos hq' hc, avgSeqP_pos _ hP _ hq', meanSeq_eq _ hP _ hq']

/-! ### Deviate: sums of a batch of finite values -/

/-- the rational under a finite value (0 otherwise) -/
def toRat : Val → Rat
  | .fin q => q
  | _ => 0

@[simp] theorem toRat_fin (q : Rat) : toRat (fin q) = q := rfl

/-- all values of the batch are finite -/
def allFin (L : List (Val × Rat)) : Bool := L.all (fun p => p.1.isFin)

theorem allFin_cons (p : Val × Rat) (L : List (Val × Rat)) :
    allFin (p :: L) = (p.1.isFin && allFin L) := by
  simp [allFin]

/-- `Σ x·w` as a rational -/
def RXW : List (Val × Rat) → Rat
  | [] => 0
  | p :: L => toRat p.1 * p.2 + RXW L

/-- `Σ x²·w` as a rational -/
def RX2W : List (Val × Rat) → Rat
  | [] => 0
  | p :: L => toRat p.1 * toRat p.1 * p.2 + RX2W L

theorem SXW_fin (L : List (Val × Rat)) (h : allFin L = true) : SXW L = fin (RXW L) := by
  induction L with
  | nil => rfl
  | cons p L ih =>
    obtain ⟨x, w⟩ := p
    rw [allFin_cons, Bool.and_eq_true] at h
    obtain ⟨a, rfl⟩ := (isFin_iff x).1 h.1
    have := ih h.2
    unfold SXW at this ⊢
    simp [sumP, RXW, this]

theorem SXW_isFin (L : List (Val × Rat)) (hL : PosL L) : (SXW L).isFin = allFin L := by
  induction L with
  | nil => rfl
  | cons p L ih =>
    obtain ⟨x, w⟩ := p
    have := ih hL.tail
    unfold SXW at this ⊢
    rw [allFin_cons, sumP, isFin_add, this, isFin_mul_fin hL.head]

theorem SSq_fin (u : Rat) (L : List (Val × Rat)) (h : allFin L = true) :
    SSq (fin u) L = fin (RX2W L - 2 * u * RXW L + u * u * SW L) := by
  induction L with
  | nil => simp [SSq, sumP, RX2W, RXW, SW]
  | cons p L ih =>
    obtain ⟨x, w⟩ := p
    rw [allFin_cons, Bool.and_eq_true] at h
    obtain ⟨a, rfl⟩ := (isFin_iff x).1 h.1
    have := ih h.2
    unfold SSq at this ⊢
    simp only [sumP, this, fin_sub_fin, fin_mul_fin, fin_add_fin, RX2W, RXW, SW, toRat_fin]
    congr 1
    ring

theorem SXW_pinf (L : List (Val × Rat)) (hL : PosL L) (h : SXW L = pinf) : ∃ p ∈ L, p.1 = pinf := by
  induction L with
  | nil => cases h
  | cons p L ih =>
    obtain ⟨x, w⟩ := p
    unfold SXW at h ih
    rw [sumP] at h
    rcases add_eq_pinf h with h1 | h1
    · exact ⟨(x, w), List.mem_cons_self .., mul_fin_eq_pinf hL.head h1⟩
    · obtain ⟨p, hp, hx⟩ := ih hL.tail h1
      exact ⟨p, List.mem_cons_of_mem _ hp, hx⟩

theorem SXW_ninf (L : List (Val × Rat)) (hL : PosL L) (h : SXW L = ninf) : ∃ p ∈ L, p.1 = ninf := by
  induction L with
  | nil => cases h
  | cons p L ih =>
    obtain ⟨x, w⟩ := p
    unfold SXW at h ih
    rw [sumP] at h
    rcases add_eq_ninf h with h1 | h1
    · exact ⟨(x, w), List.mem_cons_self .., mul_fin_eq_ninf hL.head h1⟩
    · obtain ⟨p, hp, hx⟩ := ih hL.tail h1
      exact ⟨p, List.mem_cons_of_mem _ hp, hx⟩

theorem sumP_nan (g : Val → Rat → Val) (L : List (Val × Rat)) (h : ∃ p ∈ L, g p.1 p.2 = nan) :
    sumP g L = nan := by
  induction L with
  | nil => obtain ⟨p, hp, _⟩ := h; cases hp
  | cons p0 L ih =>
    obtain ⟨p, hp, hg⟩ := h
    rw [sumP]
    rcases List.mem_cons.1 hp with rfl | hp
    · rw [hg, nan_add]
    · rw [ih ⟨p, hp, hg⟩, add_nan]

/-- a batch with a non-finite value has the variance accumulator NaN -/
theorem SSq_nan (p0 : Val × Rat) (L0 : List (Val × Rat)) (hL : PosL (p0 :: L0))
    (h : allFin (p0 :: L0) = false) :
    SSq (SXW (p0 :: L0) / fin (SW (p0 :: L0))) (p0 :: L0) = nan := by
  have hc := SW_pos hL
  generalize p0 :: L0 = L at *
  have hS : (SXW L).isFin = false := by rw [SXW_isFin L hL, h]
  unfold SSq
  apply sumP_nan
  rcases div_fin_cases hc (SXW L) with ⟨h1, _⟩ | ⟨h1, h2⟩ | ⟨h1, h2⟩ | ⟨a, h2, _⟩
  · rw [h1]
    cases L with
    | nil => simp [allFin] at h
    | cons p L => exact ⟨p, List.mem_cons_self .., by simp⟩
  · rw [h1]
    obtain ⟨p, hp, hx⟩ := SXW_pinf L hL h2
    exact ⟨p, hp, by rw [hx]; rfl⟩
  · rw [h1]
    obtain ⟨p, hp, hx⟩ := SXW_ninf L hL h2
    exact ⟨p, hp, by rw [hx]; rfl⟩
  · rw [h2] at hS; cases hS

/-! ### Deviate: closed form of the row-wise updates -/

/-- the state of a one-datum Deviate -/
def single (x : Val) : Val := if x.isFin then fin 0 else nan

theorem devOk_single (x : Val) : DevOk x (single x) := by
  cases x <;> simp [DevOk, single, isFin]

/-- the row-wise `Deviate.fill` updates over a positive batch, from a non-empty state -/
def devSeqP (q : Rat) (m v : Val) : List (Val × Rat) → Rat × Val × Val
  | [] => (q, m, v)
  | p :: L => devSeqP (q + p.2) (wmean q m p.2 p.1) (devV q m v p.2 p.1 (single p.1)) L

theorem devSeqP_mean (L : List (Val × Rat)) (q : Rat) (m v : Val) :
    (devSeqP q m v L).1 = (meanSeq q m L).1 ∧ (devSeqP q m v L).2.1 = (meanSeq q m L).2 := by
  induction L generalizing q m v with
  | nil => exact ⟨rfl, rfl⟩
  | cons p L ih => exact ih _ _ _

theorem devSeqP_nan (L : List (Val × Rat)) (hL : PosL L) (q : Rat) (hq : 0 < q) (m v : Val)
    (d : DevOk m v) (h : (m.isFin && allFin L) = false) : (devSeqP q m v L).2.2 = nan := by
  induction L generalizing q m v with
  | nil =>
    simp [allFin] at h
    rcases d with ⟨a, b, rfl, rfl⟩ | ⟨_, rfl⟩
    · cases h
    · rfl
  | cons p L ih =>
    obtain ⟨x, w⟩ := p
    have hw : 0 < w := hL.head
    rw [devSeqP]
    apply ih hL.tail _ (by linarith) _ _ (devOk_add hq hw d (devOk_single x))
    rw [isFin_wmean hq hw]
    rw [allFin_cons] at h
    simpa [Bool.and_assoc] using h

theorem devSeqP_fin (L : List (Val × Rat)) (hL : PosL L) (q : Rat) (hq : 0 < q) (a b : Rat)
    (h : allFin L = true) :
    (devSeqP q (fin a) (fin b) L).2.2
      = fin (b + q * a * a + RX2W L - (q * a + RXW L) * (q * a + RXW L) / (q + SW L)) := by
  induction L generalizing q a b with
  | nil =>
    simp only [devSeqP, RX2W, RXW, SW]
    congr 1
    field_simp
    ring
  | cons p L ih =>
    obtain ⟨x, w⟩ := p
    have hw : 0 < w := hL.head
    have hqw : 0 < q + w := by linarith
    have hs := SW_nonneg hL.tail
    have hqws : 0 < q + w + SW L := by linarith
    have hqws' : 0 < q + (w + SW L) := by linarith
    rw [allFin_cons, Bool.and_eq_true] at h
    obtain ⟨c, rfl⟩ := (isFin_iff x).1 h.1
    rw [devSeqP]
    simp only [single, isFin_fin, if_true]
    rw [wmean_fin hqw.ne', devV_fin hqw.ne', ih hL.tail _ hqw _ _ h.2]
    simp only [RX2W, RXW, SW, toRat_fin]
    congr 1
    field_simp
    ring

/-! ### Deviate: the batch formula -/

theorem dev_closed_pos (p0 : Val × Rat) (L0 : List (Val × Rat)) (hL : PosL (p0 :: L0))
    (q : Rat) (hq : 0 < q) (m v : Val) (d : DevOk m v) :
    devV q m v (SW (p0 :: L0)) (SXW (p0 :: L0) / fin (SW (p0 :: L0)))
        (SSq (SXW (p0 :: L0) / fin (SW (p0 :: L0))) (p0 :: L0))
      = (devSeqP q m v (p0 :: L0)).2.2 := by
  have hc := SW_pos hL
  cases hfin : (m.isFin && allFin (p0 :: L0)) with
  | false =>
    rw [devSeqP_nan _ hL q hq m v d hfin]
    rw [Bool.and_eq_false_iff] at hfin
    rcases hfin with hm | hx
    · rcases d with ⟨a, b, rfl, rfl⟩ | ⟨_, rfl⟩
      · cases hm
      · exact devV_nan_left ..
    · rw [SSq_nan p0 L0 hL hx]; exact devV_nan_right ..
  | true =>
    rw [Bool.and_eq_true] at hfin
    obtain ⟨hm, hx⟩ := hfin
    obtain ⟨a, rfl⟩ := (isFin_iff m).1 hm
    rcases d with ⟨a', b, ha, rfl⟩ | ⟨hm', _⟩
    · rw [devSeqP_fin _ hL q hq a b hx, SXW_fin _ hx, fin_div_fin _ _ hc.ne', SSq_fin _ _ hx,
        devV_fin (by linarith : q + SW (p0 :: L0) ≠ 0)]
      generalize SW (p0 :: L0) = c at hc
      generalize RXW (p0 :: L0) = s
      generalize RX2W (p0 :: L0) = t
      have hqc : 0 < q + c := by linarith
      congr 1
      field_simp
      ring
    · cases hm'

theorem dev_closed_zero (x : Val) (w : Rat) (L1 : List (Val × Rat)) (hL : PosL ((x, w) :: L1)) :
    devV 0 (fin 0) (fin 0) (SW ((x, w) :: L1)) (SXW ((x, w) :: L1) / fin (SW ((x, w) :: L1)))
        (SSq (SXW ((x, w) :: L1) / fin (SW ((x, w) :: L1))) ((x, w) :: L1))
      = (devSeqP w x (single x) L1).2.2 := by
  have hc := SW_pos hL
  have hw : 0 < w := hL.head
  have hs := SW_nonneg hL.tail
  cases hfin : allFin ((x, w) :: L1) with
  | false =>
    rw [SSq_nan _ _ hL hfin, devV_nan_right]
    rw [allFin_cons] at hfin
    rw [devSeqP_nan _ hL.tail w hw x _ (devOk_single x) hfin]
  | true =>
    have hx := hfin
    rw [allFin_cons, Bool.and_eq_true] at hx
    obtain ⟨a, rfl⟩ := (isFin_iff x).1 hx.1
    simp only [single, isFin_fin, if_true]
    rw [devSeqP_fin _ hL.tail w hw a 0 hx.2, SXW_fin _ hfin, fin_div_fin _ _ hc.ne',
      SSq_fin _ _ hfin, devV_fin (by linarith : (0 : Rat) + SW ((fin a, w) :: L1) ≠ 0)]
    simp only [SW, RXW, RX2W, toRat_fin] at hc ⊢
    generalize SW L1 = c at hc hs
    generalize RXW L1 = s
    generalize RX2W L1 = t
    have hwc : 0 < w + c := by linarith
    congr 1
    field_simp
    ring

/-- body of `leafFill` for `Deviate`, on numbers -/
def devStep (r : Val × Val × Val) (x w : Val) : Val × Val × Val :=
  let m0 := if r.1.isZero then x else r.2.1
  let v0 := if r.1.isZero then (0 : Val) else r.2.2
  let mu := meanUpdate r.1 r.2.1 x w
  (mu.1, mu.2,
    if m0.isNaN || x.isNaN then Val.nan
    else if m0.isInf || x.isInf then Val.nan
    else v0 + w * (x - m0) * (x - mu.2))

theorem devStep_pos {q w : Rat} (hq : 0 < q) (hw : 0 < w) {m v : Val} (d : DevOk m v) (x : Val) :
    devStep (fin q, m, v) x (fin w) = (fin (q + w), wmean q m w x, devV q m v w x (single x)) := by
  unfold devStep
  simp only [meanUpdate_pos hq hw, isZero_fin, hq.ne', decide_false, Bool.false_eq_true, if_false]
  rw [devV_fill hq hw d]
  rfl

theorem devStep_zero {w : Rat} (hw : 0 < w) (m v x : Val) :
    devStep (fin 0, m, v) x (fin w) = (fin w, x, single x) := by
  unfold devStep
  simp only [meanUpdate_zero hw, isZero_fin, decide_true, if_true]
  cases x <;> simp [single, isNaN, isInf, isFin, zero_eq]

/-- the row-wise `Deviate.fill` updates over the batch -/
def devSeq (r : Val × Val × Val) (l : List (Val × Val)) : Val × Val × Val :=
  l.foldl (fun r p => if p.2.pos then devStep r p.1 p.2 else r) r

def devSeqV (r : Val × Val × Val) (L : List (Val × Rat)) : Val × Val × Val :=
  L.foldl (fun r p => devStep r p.1 (fin p.2)) r

theorem devSeq_posPart (l : List (Val × Val)) (hl : FinW l) (r : Val × Val × Val) :
    devSeq r l = devSeqV r (posPart l) := by
  induction l generalizing r with
  | nil => rfl
  | cons p l ih =>
    obtain ⟨x, w⟩ := p
    obtain ⟨c, hc⟩ := hl (x, w) (List.mem_cons_self ..)
    simp only at hc
    subst hc
    unfold devSeq at ih ⊢
    rw [List.foldl_cons, ih hl.tail]
    by_cases h0 : 0 < c
    · rw [posPart_cons_pos x h0]
      simp [devSeqV, pos_fin, h0]
    · rw [posPart_cons_neg x h0]
      simp [pos_fin, h0]

theorem devSeqV_pos (L : List (Val × Rat)) (hL : PosL L) (q : Rat) (hq : 0 < q) (m v : Val)
    (d : DevOk m v) :
    devSeqV (fin q, m, v) L
      = (fin (devSeqP q m v L).1, (devSeqP q m v L).2.1, (devSeqP q m v L).2.2) := by
  induction L generalizing q m v with
  | nil => rfl
  | cons p L ih =>
    obtain ⟨x, w⟩ := p
    have hw : 0 < w := hL.head
    have hqw : 0 < q + w := by linarith
    unfold devSeqV at ih ⊢
    rw [List.foldl_cons]
    simp only [devStep_pos hq hw d]
    rw [ih hL.tail _ hqw _ _ (devOk_add hq hw d (devOk_single x))]
    rfl

/-- the pure part of `leafNp` for `Deviate` -/
def devNp (e m v : Val) (xs ws : List Val) : Val × Val × Val :=
  let ca := e
  let ma := if e.isZero then (0 : Val) else m
  let sa := if e.isZero then (0 : Val) else v
  let cb0 := wtot xs ws selPos
  let e' := e + cb0
  if e'.isInf then (e', .nan, .nan)
  else if e'.pos && anySel xs ws selPos then
    let cb := e' - ca
    let mb := wsum xs ws selPos / cb0
    let sb := cb * (wsumSq xs ws mb selPos / cb0)
    let mean := (ca * ma + (e' - ca) * mb) / e'
    (e', mean, sa + sb + ca * ma * ma + cb * mb * mb - (2 : Val) * mean * (ca * ma + cb * mb)
      + mean * mean * e')
  else (e', m, v)

/-- the batch formula is `Deviate.__add__` of the old state and the state of the batch -/
theorem batch_dev {q c : Rat} (hc : 0 < c) (ma sa mb ss : Val) :
    ((fin q * ma + (fin (q + c) - fin q) * mb) / fin (q + c),
      sa + (fin (q + c) - fin q) * (ss / fin c) + fin q * ma * ma + (fin (q + c) - fin q) * mb * mb
        - (2 : Val) * ((fin q * ma + (fin (q + c) - fin q) * mb) / fin (q + c))
            * (fin q * ma + (fin (q + c) - fin q) * mb)
        + (fin q * ma + (fin (q + c) - fin q) * mb) / fin (q + c)
            * ((fin q * ma + (fin (q + c) - fin q) * mb) / fin (q + c)) * fin (q + c))
      = (wmean q ma c mb, devV q ma sa c mb ss) := by
  have : q + c - q = c := by ring
  simp only [fin_sub_fin, this, fin_mul_div_cancel hc, devV, wmean, two_eq]

theorem wmean_batch_pos {q c : Rat} (hc : 0 < c) (m s : Val) :
    wmean q m c (s / fin c) = (fin q * m + s) / fin (q + c) := by
  unfold wmean; rw [fin_mul_div_cancel hc]

theorem wmean_batch_zero {c : Rat} (hc : 0 < c) (s : Val) :
    wmean 0 (fin 0) c (s / fin c) = s / fin c := by
  unfold wmean; rw [fin_mul_div_cancel hc]; simp

theorem devNp_eq (q : Rat) (hq : 0 ≤ q) (m v : Val) (d : 0 < q → DevOk m v) (xs ws : List Val)
    (hl : FinW (xs.zip ws)) :
    devNp (fin q) m v xs ws = devSeq (fin q, m, v) (xs.zip ws) := by
  rw [devSeq_posPart _ hl]
  unfold devNp
  simp only [wtot_eq xs ws hl, wsum_eq xs ws hl, anySel_eq xs ws hl, wsumSq_eq xs ws _ hl,
    fin_add_fin, isInf_fin, Bool.false_eq_true, if_false]
  have hP := posL_posPart (xs.zip ws)
  generalize posPart (xs.zip ws) = L at hP
  cases L with
  | nil => simp [SW, devSeqV]
  | cons p L =>
    obtain ⟨x, w⟩ := p
    have hw : 0 < w := hP.head
    have hc : 0 < SW ((x, w) :: L) := SW_pos hP
    have hqc : 0 < q + SW ((x, w) :: L) := by linarith
    simp only [pos_fin, hqc, decide_true, List.isEmpty_cons, Bool.not_false, Bool.and_self,
      if_true, isZero_fin]
    rw [batch_dev hc]
    by_cases h0 : q = 0
    · subst h0
      simp only [decide_true, if_true, zero_eq]
      rw [wmean_batch_zero hc, dev_closed_zero x w L hP]
      unfold devSeqV
      rw [List.foldl_cons]
      simp only [devStep_zero hw]
      have := devSeqV_pos L hP.tail w hw x _ (devOk_single x)
      unfold devSeqV at this
      rw [this, (devSeqP_mean L w x _).2, (devSeqP_mean L w x _).1, meanSeq_eq L hP.tail _ hw]
      simp only [SW, SXW, sumP, Val.mul_comm x (fin w), Rat.zero_add]
    · have hq' : 0 < q := lt_of_le_of_ne hq (Ne.symm h0)
      simp only [h0, decide_false, Bool.false_eq_true, if_false]
      rw [wmean_batch_pos hc, dev_closed_pos _ _ hP q hq' m v (d hq'),
        devSeqV_pos _ hP _ hq' _ _ (d hq'), (devSeqP_mean _ q m v).2, (devSeqP_mean _ q m v).1,
        meanSeq_eq _ hP _ hq']

end Hg.NpLeaf
