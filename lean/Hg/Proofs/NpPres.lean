/-
  Hg.Proofs.NpPres — the hypotheses `noNanForSums` / `qtysOk` (predicates on the kinds of all nodes
  of a tree, templates included) are preserved by good row-wise runs and split over `rows1 ++ rows2`.
-/
import Hg.Proofs.NpTree1
import Hg.Proofs.KeyFacts

namespace Hg.Np

/-! ### a generic "every node's kind passes the test `pk`" predicate (templates included) -/

mutual
def allK (pk : Kind → Bool) : Agg → Bool
  | .node k _ _ tmpl kids => pk k && allKOpt pk tmpl && allKKids pk kids
def allKOpt (pk : Kind → Bool) : Option Agg → Bool
  | none => true
  | some t => allK pk t
def allKKids (pk : Kind → Bool) : List (Key × Agg) → Bool
  | [] => true
  | (_, a) :: rest => allK pk a && allKKids pk rest
end

theorem allKKids_iff {pk : Kind → Bool} : ∀ {l : List (Key × Agg)},
    allKKids pk l = true ↔ ∀ p ∈ l, allK pk p.2 = true
  | [] => by simp [allKKids]
  | (k, a) :: r => by
    simp only [allKKids, Bool.and_eq_true, List.forall_mem_cons, allKKids_iff (l := r)]

theorem allK_node {pk : Kind → Bool} {k e st tmpl kids} :
    allK pk (.node k e st tmpl kids) = true ↔
      pk k = true ∧ (∀ t, tmpl = some t → allK pk t = true) ∧ (∀ p ∈ kids, allK pk p.2 = true) := by
  rw [allK]
  simp only [Bool.and_eq_true, allKKids_iff, and_assoc]
  cases tmpl with
  | none => simp [allKOpt]
  | some t => simp [allKOpt]

/-- the `Sum` test of `noNanForSums` -/
def nanK (rows : List Datum) (k : Kind) : Bool :=
  match k with
  | .sum q => rows.all (fun d => match q.evalNum d with | .ok v => !v.isNaN | .error _ => true)
  | _ => true

/-- the test of `qtysOk` -/
def okK (rows : List Datum) (k : Kind) : Bool := rows.all k.evalOk

mutual
theorem noNan_eq_allK (rows : List Datum) : ∀ t : Agg, noNanForSums t rows = allK (nanK rows) t
  | .node k e st tmpl kids => by
    unfold noNanForSums
    rw [allK, noNanOpt_eq_allK rows tmpl, noNanKids_eq_allK rows kids]
    rfl
theorem noNanOpt_eq_allK (rows : List Datum) : ∀ t : Option Agg,
    noNanForSumsOpt t rows = allKOpt (nanK rows) t
  | none => by rw [noNanForSumsOpt, allKOpt]
  | some t => by rw [noNanForSumsOpt, allKOpt, noNan_eq_allK rows t]
theorem noNanKids_eq_allK (rows : List Datum) : ∀ l : List (Key × Agg),
    noNanForSumsKids l rows = allKKids (nanK rows) l
  | [] => by rw [noNanForSumsKids, allKKids]
  | (_, a) :: r => by
    rw [noNanForSumsKids, allKKids, noNan_eq_allK rows a, noNanKids_eq_allK rows r]
end

mutual
theorem qtysOk_eq_allK (rows : List Datum) : ∀ t : Agg, qtysOk t rows = allK (okK rows) t
  | .node k e st tmpl kids => by
    rw [qtysOk, allK, qtysOkOpt_eq_allK rows tmpl, qtysOkKids_eq_allK rows kids]
    rfl
theorem qtysOkOpt_eq_allK (rows : List Datum) : ∀ t : Option Agg,
    qtysOkOpt t rows = allKOpt (okK rows) t
  | none => by rw [qtysOkOpt, allKOpt]
  | some t => by rw [qtysOkOpt, allKOpt, qtysOk_eq_allK rows t]
theorem qtysOkKids_eq_allK (rows : List Datum) : ∀ l : List (Key × Agg),
    qtysOkKids l rows = allKKids (okK rows) l
  | [] => by rw [qtysOkKids, allKKids]
  | (_, a) :: r => by
    rw [qtysOkKids, allKKids, qtysOk_eq_allK rows a, qtysOkKids_eq_allK rows r]
end

/-! ### one fill -/

theorem lookupK_of_mem_nodup' {α : Type} : ∀ {l : List (Key × α)} {p : Key × α}, (keysOf l).Nodup → p ∈ l →
    lookupK p.1 l = some p.2
  | [], _, _, h => by cases h
  | (k, a) :: r, p, hn, h => by
    rw [P3.keysOf_cons, List.nodup_cons] at hn
    rw [P3.lookupK_cons]
    rcases List.mem_cons.1 h with rfl | h
    · rw [if_pos rfl]
    · have : ¬ k = p.1 := by
        intro e; exact hn.1 (e ▸ P3.mem_keysOf h)
      rw [if_neg this]
      exact lookupK_of_mem_nodup' hn.2 h

def StepP (pk : Kind → Bool) (a : Agg) : Prop :=
  ∀ d w, good a = true → (fill a d w).2 = .ok → good (fill a d w).1 = true →
    allK pk a = true → allK pk (fill a d w).1 = true

theorem step_node (pk : Kind → Bool) (k : Kind) (e : Val) (st : St) (tmpl : Option Agg)
    (kids : List (Key × Agg)) (iht : ∀ t, tmpl = some t → StepP pk t)
    (ihk : ∀ p ∈ kids, StepP pk p.2) : StepP pk (.node k e st tmpl kids) := by
  intro d w hg hok hg1 h
  by_cases hp : w.pos = true
  · by_cases hk : k.isLeaf = true
    · rw [P3.fill_leaf d hp hk]
      cases leafFill k e st d w with
      | error f => exact h
      | ok r =>
        obtain ⟨e', st'⟩ := r
        rw [allK_node] at h ⊢
        exact h
    · have hk' : k.isLeaf = false := by simpa using hk
      obtain ⟨kids1, hN1, h1, h2, h3, _⟩ := fill_step hk' hok
      rw [hN1] at hg1 ⊢
      have G := P3.good_node hg
      have G1 := P3.good_node hg1
      have hnd := KF.layoutOk_nodup k _ G1.layout
      rw [allK_node] at h ⊢
      obtain ⟨hk0, ht0, hkids0⟩ := h
      refine ⟨hk0, ht0, ?_⟩
      intro p hpm
      have hl := lookupK_of_mem_nodup' hnd hpm
      cases hl0 : lookupK p.1 kids with
      | some a =>
        obtain ⟨hl1, hok1⟩ := h1 p.1 a hl0
        rw [hl] at hl1
        injection hl1 with hl1
        have hma := P3.lookupK_mem hl0
        have hgp := G1.gkids p hpm
        rw [hl1] at hgp ⊢
        exact ihk _ hma d _ (G.gkids _ hma) hok1 hgp (hkids0 _ hma)
      | none =>
        by_cases hh : hit1 k (keysOf kids) p.1 d w
        · obtain ⟨t, ht, hl1, hok1⟩ := h2 p.1 hl0 hh
          rw [hl] at hl1
          injection hl1 with hl1
          have hgp := G1.gkids p hpm
          rw [hl1] at hgp ⊢
          exact iht t ht d _ (G.gtmpl t ht).1 hok1 hgp (ht0 t ht)
        · have := h3 p.1 hl0 hh
          rw [hl] at this
          cases this
  · have hp' : w.pos = false := by simpa using hp
    rw [P3.fill_gate' _ d w hp']
    exact h

theorem step_all (pk : Kind → Bool) : ∀ a, StepP pk a :=
  P3.Agg.ind_a (P := StepP pk) (fun k e st tmpl kids iht ihk => step_node pk k e st tmpl kids iht ihk)

theorem allK_fillAll (pk : Kind → Bool) : ∀ (S : List (Datum × Val)) (t : Agg),
    goodRun t S = true → allK pk t = true → allK pk (fillAll t S) = true
  | [], _, _, h => h
  | dw :: S, t, hrun, h => by
    obtain ⟨hg, _, hok, hrun1⟩ := (goodRun_cons _ _ _).1 hrun
    rw [fillAll_cons]
    exact allK_fillAll pk S _ hrun1 (step_all pk t dw.1 dw.2 hg hok (goodRun_good _ _ hrun1) h)

/-! ### append -/

mutual
theorem allK_and (p1 p2 p : Kind → Bool) (hp : ∀ k, p k = (p1 k && p2 k)) : ∀ t : Agg,
    allK p t = (allK p1 t && allK p2 t)
  | .node k e st tmpl kids => by
    rw [allK, allK, allK, hp k, allKOpt_and p1 p2 p hp tmpl, allKKids_and p1 p2 p hp kids]
    cases p1 k <;> cases p2 k <;> cases allKOpt p1 tmpl <;> cases allKOpt p2 tmpl <;>
      cases allKKids p1 kids <;> cases allKKids p2 kids <;> rfl
theorem allKOpt_and (p1 p2 p : Kind → Bool) (hp : ∀ k, p k = (p1 k && p2 k)) : ∀ t : Option Agg,
    allKOpt p t = (allKOpt p1 t && allKOpt p2 t)
  | none => by rw [allKOpt, allKOpt, allKOpt]; rfl
  | some t => by rw [allKOpt, allKOpt, allKOpt, allK_and p1 p2 p hp t]
theorem allKKids_and (p1 p2 p : Kind → Bool) (hp : ∀ k, p k = (p1 k && p2 k)) :
    ∀ l : List (Key × Agg), allKKids p l = (allKKids p1 l && allKKids p2 l)
  | [] => by rw [allKKids, allKKids, allKKids]; rfl
  | (_, a) :: r => by
    rw [allKKids, allKKids, allKKids, allK_and p1 p2 p hp a, allKKids_and p1 p2 p hp r]
    cases allK p1 a <;> cases allK p2 a <;> cases allKKids p1 r <;> cases allKKids p2 r <;> rfl
end

theorem nanK_append (r1 r2 : List Datum) (k : Kind) : nanK (r1 ++ r2) k = (nanK r1 k && nanK r2 k) := by
  cases k <;> simp only [nanK, List.all_append, Bool.and_self]

theorem okK_append (r1 r2 : List Datum) (k : Kind) : okK (r1 ++ r2) k = (okK r1 k && okK r2 k) := by
  simp only [okK, List.all_append]

/-! ### the package -/

theorem noNan_fillAll (t : Agg) (S : List (Datum × Val)) (rows : List Datum)
    (hrun : goodRun t S = true) (h : noNanForSums t rows = true) :
    noNanForSums (fillAll t S) rows = true := by
  rw [noNan_eq_allK] at h ⊢
  exact allK_fillAll _ S t hrun h

theorem qtysOk_fillAll (t : Agg) (S : List (Datum × Val)) (rows : List Datum)
    (hrun : goodRun t S = true) (h : qtysOk t rows = true) :
    qtysOk (fillAll t S) rows = true := by
  rw [qtysOk_eq_allK] at h ⊢
  exact allK_fillAll _ S t hrun h

theorem noNan_append (t : Agg) (r1 r2 : List Datum) :
    noNanForSums t (r1 ++ r2) = true ↔ noNanForSums t r1 = true ∧ noNanForSums t r2 = true := by
  rw [noNan_eq_allK, noNan_eq_allK, noNan_eq_allK,
    allK_and (nanK r1) (nanK r2) (nanK (r1 ++ r2)) (nanK_append r1 r2) t, Bool.and_eq_true]

theorem qtysOk_append (t : Agg) (r1 r2 : List Datum) :
    qtysOk t (r1 ++ r2) = true ↔ qtysOk t r1 = true ∧ qtysOk t r2 = true := by
  rw [qtysOk_eq_allK, qtysOk_eq_allK, qtysOk_eq_allK,
    allK_and (okK r1) (okK r2) (okK (r1 ++ r2)) (okK_append r1 r2) t, Bool.and_eq_true]

end Hg.Np
