/-
  Hg.Proofs.NpHyp — the extra executable hypothesis of the vectorised-fill theorems.

  `fill.numpy` evaluates every quantity of the tree on the *whole* batch (numpy arrays), also on the
  rows a node never receives row by row (rows of weight 0, rows routed to a sibling, rows of other
  bins of a sparse container).  The row-wise run never calls those quantities, so it can be
  fault-free while the vectorised call raises.  `qtysOk t rows`: every quantity of `t` (children
  and templates included) evaluates on every record of the batch without a fault.
-/
import Hg.Model.Np

namespace Hg

/-- the quantity of a node of kind `k` evaluates on `d` without a fault -/
def Kind.evalOk (k : Kind) (d : Datum) : Bool :=
  match k with
  | .count | .label | .untypedLabel | .index | .branch => true
  | .sum q | .average q | .deviate q | .minimize q | .maximize q
  | .bin q .. | .sparse q .. | .central q | .irregular q | .stack q | .fraction q | .select q =>
      (match q.evalNum d with | .ok _ => true | .error _ => false)
  | .bag q r => (match q.evalBag r d with | .ok _ => true | .error _ => false)
  | .categorize .. => (match route k [] d 1 with | .ok _ => true | .error _ => false)

mutual
/-- every quantity of the tree (children and templates included) evaluates on every record of the
batch without a fault -/
def qtysOk : Agg → List Datum → Bool
  | .node k _ _ tmpl kids, rows =>
    rows.all k.evalOk && qtysOkOpt tmpl rows && qtysOkKids kids rows
def qtysOkOpt : Option Agg → List Datum → Bool
  | none, _ => true
  | some t, rows => qtysOk t rows
def qtysOkKids : List (Key × Agg) → List Datum → Bool
  | [], _ => true
  | (_, a) :: rest, rows => qtysOk a rows && qtysOkKids rest rows
end

end Hg
