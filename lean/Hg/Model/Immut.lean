/-
  Hg.Model.Immut — what a JSON reload yields: the same content with quantities that can no longer
  be called and without templates (`Container.toImmutable`).
-/
import Hg.Model.Codec
import Hg.Model.WF

namespace Hg

def Qty.dead (q : Qty) : Qty := ⟨0, q.name, false⟩

mutual
/-- forget the quantity functions and the templates; keep names, parameters and content -/
def immut : Agg → Agg
  | .node k e st _ kids => .node (k.mapQty Qty.dead) e st none (immutKids kids)
def immutKids : List (Key × Agg) → List (Key × Agg)
  | [] => []
  | (key, a) :: rest => (key, immut a) :: immutKids rest
end

/-- all members have the type (and Bag range) of the first one -/
def sameTypeAs (a : Agg) (b : Agg) : Bool :=
  a.typeName == b.typeName &&
  (match a.kind, b.kind with
   | .bag _ r1, .bag _ r2 => decide (r1 = r2)
   | _, _ => true)

mutual
/-- What the JSON format can express: the bins of one container share a type and a quantity name
(they are serialised once, as `values:type` / `values:name`), and an empty sparse container's
`ctype`/`cname` agree with its bins when it has some. Every state of the real library has it. -/
def uniform : Agg → Bool
  | .node k _ _ _ kids =>
    uniformKids kids &&
    (match k with
     | .bin .. | .central _ | .irregular _ | .stack _ =>
         (match binsOf kids with
          | [] => true
          | p :: rest => rest.all (fun r => r.2.typeName == p.2.typeName && r.2.qtyName == p.2.qtyName))
     | .fraction _ =>
         (match lookupK .num kids, lookupK .den kids with
          | some n, some d => n.typeName == d.typeName && n.qtyName == d.qtyName
          | _, _ => false)
     | .sparse _ _ _ ctype cname | .categorize _ ctype cname =>
         (binsOf kids).all (fun r => r.2.typeName == ctype && r.2.qtyName == cname)
     | .label | .index =>
         (match kids with
          | [] => false
          | p :: rest => rest.all (fun r => sameTypeAs p.2 r.2))
     | _ => true)
def uniformKids : List (Key × Agg) → Bool
  | [] => true
  | (_, a) :: rest => uniform a && uniformKids rest
end

mutual
/-- every SparselyBin / Categorize node (through children) names a registered factory as its
`contentType` — what `Factory.fromJson` checks on `bins:type`. -/
def knownCtype : Agg → Bool
  | .node k _ _ _ kids =>
    (match k with
     | .sparse _ _ _ ctype _ => isKnownType ctype
     | .categorize _ ctype _ => isKnownType ctype
     | _ => true) && knownCtypeKids kids
def knownCtypeKids : List (Key × Agg) → Bool
  | [] => true
  | (_, a) :: rest => knownCtype a && knownCtypeKids rest
end

mutual
/-- no `num` node carries a non-finite value (they cannot: `Json.num` holds a `Rat`), and no `null`
occurs: what `json.dumps(allow_nan=False)` needs, plus the absence of dropped fields -/
def Json.noNull : Json → Bool
  | .null => false
  | .arr l => Json.noNullList l
  | .obj m => Json.noNullMembers m
  | _ => true
def Json.noNullList : List Json → Bool
  | [] => true
  | a :: rest => Json.noNull a && Json.noNullList rest
def Json.noNullMembers : List (String × Json) → Bool
  | [] => true
  | (_, a) :: rest => Json.noNull a && Json.noNullMembers rest
end

mutual
/-- `uniform` in the tree and in every template (through children and templates): what a tree built by the
constructors of the real library satisfies, bins or no bins -/
def uniformT : Agg → Bool
  | .node k e st tmpl kids => uniform (.node k e st tmpl kids) && uniformTOpt tmpl && uniformTKids kids
def uniformTOpt : Option Agg → Bool
  | none => true
  | some t => uniformT t
def uniformTKids : List (Key × Agg) → Bool
  | [] => true
  | (_, a) :: rest => uniformT a && uniformTKids rest
end

end Hg
