/-
  Hg.Model.Json — the JSON value domain used by the codec.

  Numbers are exact (`Val.fin`); the non-finite values never appear as `num` in a strict document —
  Histogrammar writes them as the strings "nan" / "inf" / "-inf".
-/
import Hg.Model.Agg

namespace Hg

inductive Json where
  | null
  | bool (b : Bool)
  | num (q : Rat)
  | str (s : String)
  | arr (l : List Json)
  | obj (m : List (String × Json))
  deriving Repr, Inhabited

namespace Json

mutual
def beq : Json → Json → Bool
  | null, null => true
  | bool a, bool b => a == b
  | num a, num b => decide (a = b)
  | str a, str b => a == b
  | arr a, arr b => beqList a b
  | obj a, obj b => beqMembers a b
  | _, _ => false
def beqList : List Json → List Json → Bool
  | [], [] => true
  | a :: as, b :: bs => beq a b && beqList as bs
  | _, _ => false
def beqMembers : List (String × Json) → List (String × Json) → Bool
  | [], [] => true
  | (k1, a) :: as, (k2, b) :: bs => k1 == k2 && beq a b && beqMembers as bs
  | _, _ => false
end

instance : BEq Json := ⟨beq⟩

mutual
/-- Nesting depth; `decode` uses it as fuel. -/
def depth : Json → Nat
  | arr l => depthList l + 1
  | obj m => depthMembers m + 1
  | _ => 1
def depthList : List Json → Nat
  | [] => 0
  | a :: as => Nat.max (depth a) (depthList as)
def depthMembers : List (String × Json) → Nat
  | [] => 0
  | (_, a) :: as => Nat.max (depth a) (depthMembers as)
end

def get? (key : String) : List (String × Json) → Option Json
  | [] => none
  | (k, v) :: rest => if k = key then some v else get? key rest

def keys (m : List (String × Json)) : List String := m.map (·.1)

/-- `util.hasKeys(test, required, optional)`. -/
def hasKeys (m : List (String × Json)) (required optional : List String) : Bool :=
  required.all (fun k => (keys m).contains k) &&
  (keys m).all (fun k => required.contains k || optional.contains k)

/-- `floatToJson`: finite numbers as numbers, the rest as quoted strings. -/
def ofVal : Val → Json
  | .fin q => num q
  | .pinf => str "inf"
  | .ninf => str "-inf"
  | .nan => str "nan"

/-- The test `json[k] in ("nan", "inf", "-inf") or isinstance(json[k], numbers.Real)` followed by
`float(...)`.  A JSON boolean passes it (`bool` is a `numbers.Real` in Python) and reads as 1/0; the
model mirrors that leniency (DESIGN §9, finding 18). -/
def toVal? : Json → Option Val
  | num q => some (.fin q)
  | bool b => some (.fin (if b then 1 else 0))
  | str "nan" => some .nan
  | str "inf" => some .pinf
  | str "-inf" => some .ninf
  | _ => none

/-- a finite number (structural parameters of the model are rationals); a boolean reads as 1/0 -/
def toRat? : Json → Option Rat
  | num q => some q
  | bool b => some (if b then 1 else 0)
  | _ => none

/-- Optional string field: absent or `null` is `none`; a string is `some`; anything else is a
format error (`none` at the outer level). -/
def optStr? (m : List (String × Json)) (key : String) : Option (Option String) :=
  match get? key m with
  | none => some none
  | some null => some none
  | some (str s) => some (some s)
  | some _ => none

/-- no `num` carries a non-finite value by construction; `Strict` documents additionally contain no
`null` where the emitter never writes one — used by C04 (`json.dumps(allow_nan=False)`). -/
def maybeAdd (m : List (String × Json)) (key : String) (v : Option String) : List (String × Json) :=
  match v with
  | some s => m ++ [(key, str s)]
  | none => m

end Json
end Hg
