/-
  Hg.Model.Fcn — user-function wrappers of histogrammar.util: `named`, `cached`, `serializable`,
  and the single-entry memo of `CachedFcn.__call__`.

  A wrapper is (underlying function, optional name, cached?).  The underlying function is abstract:
  arguments and results are opaque tokens (`Nat`); argument equality is the comparison the code
  performs (`is`, else `np.array_equal`), which the harness realises by mapping equal arguments to
  equal tokens.  Python's `compile`/`eval` for string expressions is a contract outside the model.
-/
namespace Hg

structure Fcn where
  base : Nat                 -- identity of the wrapped function or expression
  name : Option String
  cached : Bool
  deriving Repr, DecidableEq, Inhabited

/-- `UserFcn(expr, name)` / `serializable(fcn)`: wrap once, never twice -/
def Fcn.ofBase (b : Nat) : Fcn := ⟨b, none, false⟩

inductive WOp where
  | named (n : String)
  | cached
  | serializable
  deriving Repr, DecidableEq

/-- one wrapper application; `none` = raises (`named` on an already named function) -/
def Fcn.apply (f : Fcn) : WOp → Option Fcn
  | .named n => if f.name.isSome then none else some { f with name := some n }
  | .cached => some { f with cached := true }
  | .serializable => some f

def Fcn.applyAll (f : Fcn) : List WOp → Option Fcn
  | [] => some f
  | op :: rest => (f.apply op).bind (fun g => g.applyAll rest)

/-- the memo of a CachedFcn: last argument tuple and last return value -/
abbrev Memo := Option (Nat × Nat)

/-- `CachedFcn.__call__`: reuse the last value iff the arguments equal the last ones -/
def callCached (g : Nat → Nat) (m : Memo) (a : Nat) : Nat × Memo :=
  match m with
  | some (a', r) => if a' = a then (r, m) else (g a, some (a, g a))
  | none => (g a, some (a, g a))

/-- a sequence of calls threading the memo; returns the outputs -/
def runCached (g : Nat → Nat) : Memo → List Nat → List Nat
  | _, [] => []
  | m, a :: rest => let r := callCached g m a; r.1 :: runCached g r.2 rest

/-- number of times the underlying function is evaluated -/
def evalCount (g : Nat → Nat) : Memo → List Nat → Nat
  | _, [] => 0
  | m, a :: rest =>
    let hit : Bool := match m with | some (a', _) => decide (a' = a) | none => false
    (if hit then 0 else 1) + evalCount g (callCached g m a).2 rest

/-- the memo is consistent with the function -/
def Memo.ok (g : Nat → Nat) : Memo → Prop
  | none => True
  | some (a, r) => r = g a

/-! ### partial functions: `none` = the function raises for that argument -/

/-- `CachedFcn.__call__` (after fix f118426): evaluate first; a call that raises leaves the memo as it was -/
def callCachedP (g : Nat → Option Nat) (m : Memo) (a : Nat) : Option Nat × Memo :=
  match m with
  | some (a', r) => if a' = a then (some r, m) else
      (match g a with | some v => (some v, some (a, v)) | none => (none, m))
  | none => (match g a with | some v => (some v, some (a, v)) | none => (none, m))

def runCachedP (g : Nat → Option Nat) : Memo → List Nat → List (Option Nat)
  | _, [] => []
  | m, a :: rest => let r := callCachedP g m a; r.1 :: runCachedP g r.2 rest

def Memo.okP (g : Nat → Option Nat) : Memo → Prop
  | none => True
  | some (a, r) => g a = some r

/-- the order of effects before the fix: the arguments are remembered before the function is evaluated, so after a
call that raised the memo pairs the failing argument with the previous result -/
def callCachedOld (g : Nat → Option Nat) (m : Memo) (a : Nat) : Option Nat × Memo :=
  match m with
  | some (a', r) => if a' = a then (some r, m) else
      (match g a with | some v => (some v, some (a, v)) | none => (none, some (a, r)))
  | none => (match g a with | some v => (some v, some (a, v)) | none => (none, none))

end Hg
