/-
  Hg.Model.Eqv — `__eq__` of every primitive (after the repairs of DESIGN §9, findings 6–8),
  parameterised by the two tolerances of `histogrammar.util`.
-/
import Hg.Model.Codec

namespace Hg

/-- `UserFcn.__eq__`: same name and same expression.  Two live quantities are taken to have the
same code object (the harness builds every quantity from one lambda shape); a live quantity and the
`None` expression of a reloaded container differ. -/
def Qty.eqv (a b : Qty) : Bool := a.name == b.name && a.live == b.live

def BKey.eqv (rel tol : Rat) : BKey → BKey → Bool
  | .num a, .num b => Val.numeq rel tol a b
  | .str a, .str b => a == b
  | .vec a, .vec b => a.length == b.length && (a.zip b).all (fun p => Val.numeq rel tol p.1 p.2)
  | _, _ => false

/-- Comparison of the non-recursive part of two nodes: type, structural parameters and (where the
code compares it) the quantity. -/
def Kind.eqv (rel tol : Rat) : Kind → Kind → Bool
  | .count, .count => true
  | .sum a, .sum b => a.eqv b
  | .average a, .average b => a.eqv b
  | .deviate a, .deviate b => a.eqv b
  | .minimize a, .minimize b => a.eqv b
  | .maximize a, .maximize b => a.eqv b
  | .bag a r1, .bag b r2 => a.eqv b && r1 == r2
  | .bin a _ l1 h1, .bin b _ l2 h2 =>
      a.eqv b && Val.numeq rel tol (.fin l1) (.fin l2) && Val.numeq rel tol (.fin h1) (.fin h2)
  | .sparse a w1 o1 c1 _, .sparse b w2 o2 c2 _ =>
      a.eqv b && Val.numeq rel tol (.fin w1) (.fin w2) && Val.numeq rel tol (.fin o1) (.fin o2) && c1 == c2
  | .central a, .central b => a.eqv b
  | .irregular a, .irregular b => a.eqv b
  | .stack a, .stack b => a.eqv b
  | .fraction a, .fraction b => a.eqv b
  | .select _, .select _ => true          -- `Select.__eq__` does not look at the quantity
  | .categorize a c1 _, .categorize b c2 _ => a.eqv b && c1 == c2
  | .label, .label => true
  | .untypedLabel, .untypedLabel => true
  | .index, .index => true
  | .branch, .branch => true
  | _, _ => false

/-- Scalar state comparison (`Deviate` compares `variance`, not `varianceTimesEntries`). -/
def St.eqv (rel tol : Rat) (e1 : Val) (s1 : St) (e2 : Val) (s2 : St) : Bool :=
  match s1, s2 with
  | .unit, .unit => true
  | .sum a, .sum b => Val.numeq rel tol a b
  | .mean a, .mean b => Val.numeq rel tol a b
  | .dev m1 v1, .dev m2 v2 =>
      Val.numeq rel tol m1 m2 && Val.numeq rel tol (varianceOf e1 v1) (varianceOf e2 v2)
  | .ext a, .ext b => Val.numeq rel tol a b
  | .bag a, .bag b =>
      a.length == b.length &&
      (a.zip b).all (fun p => BKey.eqv rel tol p.1.1 p.2.1 && Val.numeq rel tol p.1.2 p.2.2)
  | _, _ => false

/-- Keys are compared exactly, except thresholds (`numeq`). -/
def Key.eqv (rel tol : Rat) : Key → Key → Bool
  | .thr a, .thr b => Val.numeq rel tol a b
  | a, b => a == b

mutual
/-- `a == b` with tolerances `(rel, tol)`. -/
def eqv (rel tol : Rat) : Agg → Agg → Bool
  | .node k1 e1 s1 t1 kids1, b =>
    match b with
    | .node k2 e2 s2 t2 kids2 =>
      Kind.eqv rel tol k1 k2 && Val.numeq rel tol e1 e2 && St.eqv rel tol e1 s1 e2 s2 &&
      -- SparselyBin/Categorize compare their sub-aggregator templates when both still have one
      (match t1, t2 with
       | some x, some y => if k1.isSparse then eqv rel tol x y else true
       | _, _ => true) &&
      eqvKids rel tol kids1 kids2

/-- Children are compared position by position: same number of children, same keys, equal
contents.  (Sparse children are kept sorted, so this is dictionary equality for them.) -/
def eqvKids (rel tol : Rat) : List (Key × Agg) → List (Key × Agg) → Bool
  | [], [] => true
  | (k1, a) :: r1, (k2, b) :: r2 => Key.eqv rel tol k1 k2 && eqv rel tol a b && eqvKids rel tol r1 r2
  | _, _ => false
end

end Hg
