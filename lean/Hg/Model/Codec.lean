/-
  Hg.Model.Codec — `toJson` / `Factory.fromJson`, transcribed from every
  `toJsonFragment` / `fromJsonFragment` / `ed`.

  `encode` is structural.  `decode` recurses on fuel (the nesting depth of the document), which
  keeps it kernel-reducible; `decode j` supplies `j.depth + 1`.
-/
import Hg.Model.Json
import Hg.Model.Ops

namespace Hg

open Json

/-- `Deviate.variance`. -/
def varianceOf (e vte : Val) : Val := if e.isZero then vte else vte / e

def BagRange.toString : BagRange → String
  | .S => "S"
  | .N => "N"
  | .Nn n => "N" ++ Nat.repr n

def BKey.toJson : BKey → Json
  | .num v => Json.ofVal v
  | .str s => .str s
  | .vec l => .arr (l.map Json.ofVal)

/-- non-flow children in order (bins / values / pairs) -/
def binsOf (kids : List (Key × Agg)) : List (Key × Agg) :=
  kids.filter (fun p => match p.1 with | .under | .over | .nanflow => false | _ => true)

def flowOf (key : Key) (kids : List (Key × Agg)) : Option Agg := lookupK key kids

def specVersion : String := "1.1"

/-- JSON object key of a bin position. -/
def Key.toJsonKey : Key → String
  | .idx i => toString i
  | .cat s => s
  | .lbl s => s
  | _ => ""

def firstType : List (Key × Agg) → String
  | [] => ""
  | (_, a) :: _ => a.typeName

def firstName : List (Key × Agg) → Option String
  | [] => none
  | (_, a) :: _ => a.qtyName

def typeOfOpt : Option Agg → String
  | none => ""
  | some a => a.typeName

def nameOfOpt : Option Agg → Option String
  | none => none
  | some a => a.qtyName
def isFlow : Key → Bool
  | .under | .over | .nanflow => true
  | _ => false

mutual
/-- `toJsonFragment(suppressName)`. -/
def encodeFrag : Agg → Bool → Json
  | .node k e st tmpl kids, suppress =>
    let name : Option String := if suppress then none else (k.qty?).bind (·.name)
    let ent : String × Json := ("entries", Json.ofVal e)
    match k, st with
    | .count, _ => Json.ofVal e
    | .sum _, .sum s => .obj (maybeAdd [ent, ("sum", Json.ofVal s)] "name" name)
    | .average _, .mean m => .obj (maybeAdd [ent, ("mean", Json.ofVal m)] "name" name)
    | .deviate _, .dev m v =>
        .obj (maybeAdd [ent, ("mean", Json.ofVal m), ("variance", Json.ofVal (varianceOf e v))] "name" name)
    | .minimize _, .ext x => .obj (maybeAdd [ent, ("min", Json.ofVal x)] "name" name)
    | .maximize _, .ext x => .obj (maybeAdd [ent, ("max", Json.ofVal x)] "name" name)
    | .bag _ r, .bag m =>
        .obj (maybeAdd
          [ent,
           ("values", .arr (m.map (fun kv => .obj [("w", Json.ofVal kv.2), ("v", kv.1.toJson)]))),
           ("range", .str r.toString)] "name" name)
    | .bin _ _ low high, _ =>
        .obj (maybeAdd (maybeAdd
          [("low", .num low), ("high", .num high), ent,
           ("values:type", .str (firstType (binsOf kids))),
           ("values", .arr (encodeList kids true)),
           ("underflow:type", .str (typeOfOpt (flowOf .under kids))),
           ("underflow", encodeAt .under kids false),
           ("overflow:type", .str (typeOfOpt (flowOf .over kids))),
           ("overflow", encodeAt .over kids false),
           ("nanflow:type", .str (typeOfOpt (flowOf .nanflow kids))),
           ("nanflow", encodeAt .nanflow kids false)]
          "name" name) "values:name" (firstName (binsOf kids)))
    | .sparse _ width origin ctype cname, _ =>
        let binsType := match binsOf kids with | [] => ctype | p :: _ => p.2.typeName
        let binsName := match tmpl with
          | some t => t.qtyName
          | none => match binsOf kids with | [] => cname | p :: _ => p.2.qtyName
        .obj (maybeAdd (maybeAdd
          [("binWidth", .num width), ent,
           ("bins:type", .str binsType),
           ("bins", .obj (encodeMembers kids true)),
           ("nanflow:type", .str (typeOfOpt (flowOf .nanflow kids))),
           ("nanflow", encodeAt .nanflow kids false),
           ("origin", .num origin)]
          "name" name) "bins:name" binsName)
    | .central _, _ =>
        .obj (maybeAdd (maybeAdd
          [ent,
           ("bins:type", .str (firstType (binsOf kids))),
           ("bins", .arr (encodePairs "center" kids)),
           ("nanflow:type", .str (typeOfOpt (flowOf .nanflow kids))),
           ("nanflow", encodeAt .nanflow kids false)]
          "name" name) "bins:name" (firstName (binsOf kids)))
    | .irregular _, _ | .stack _, _ =>
        .obj (maybeAdd (maybeAdd
          [ent,
           ("bins:type", .str (firstType (binsOf kids))),
           ("bins", .arr (encodePairs "atleast" kids)),
           ("nanflow:type", .str (typeOfOpt (flowOf .nanflow kids))),
           ("nanflow", encodeAt .nanflow kids false)]
          "name" name) "bins:name" (firstName (binsOf kids)))
    | .fraction _, _ =>
        .obj (maybeAdd (maybeAdd
          [ent,
           ("sub:type", .str (typeOfOpt (flowOf .num kids))),
           ("numerator", encodeAt .num kids true),
           ("denominator", encodeAt .den kids true)]
          "name" name) "sub:name" (nameOfOpt (flowOf .num kids)))
    | .select _, _ =>
        .obj (maybeAdd
          [ent,
           ("sub:type", .str (typeOfOpt (flowOf .cut kids))),
           ("data", encodeAt .cut kids false)] "name" name)
    | .categorize _ ctype cname, _ =>
        let binsType := match kids with | [] => ctype | p :: _ => p.2.typeName
        let binsName := match tmpl with
          | some t => t.qtyName
          | none => match kids with | [] => cname | p :: _ => p.2.qtyName
        .obj (maybeAdd (maybeAdd
          [ent, ("bins:type", .str binsType), ("bins", .obj (encodeMembers kids true))]
          "name" name) "bins:name" binsName)
    | .label, _ =>
        .obj [ent, ("sub:type", .str (firstType kids)), ("data", .obj (encodeMembers kids false))]
    | .untypedLabel, _ => .obj [ent, ("data", .obj (encodeTypedMembers kids))]
    | .index, _ =>
        .obj [ent, ("sub:type", .str (firstType kids)), ("data", .arr (encodeList kids false))]
    | .branch, _ => .obj [ent, ("data", .arr (encodeTypedList kids))]
    | _, _ => .null    -- ill-formed node (state does not match kind)

/-- fragment of the first child stored under `key` (`null` if there is none: ill-formed node) -/
def encodeAt : Key → List (Key × Agg) → Bool → Json
  | _, [], _ => .null
  | key, (k, a) :: rest, s => if k = key then encodeFrag a s else encodeAt key rest s

/-- fragments of the non-flow children, in order -/
def encodeList : List (Key × Agg) → Bool → List Json
  | [], _ => []
  | (key, a) :: rest, s => if isFlow key then encodeList rest s else encodeFrag a s :: encodeList rest s

def encodeMembers : List (Key × Agg) → Bool → List (String × Json)
  | [], _ => []
  | (key, a) :: rest, s =>
    if isFlow key then encodeMembers rest s else (key.toJsonKey, encodeFrag a s) :: encodeMembers rest s

/-- `{"center"|"atleast": x, "data": fragment}` -/
def encodePairs : String → List (Key × Agg) → List Json
  | _, [] => []
  | field, (key, a) :: rest =>
    match key with
    | .ctr c => .obj [(field, .num c), ("data", encodeFrag a true)] :: encodePairs field rest
    | .thr t => .obj [(field, Json.ofVal t), ("data", encodeFrag a true)] :: encodePairs field rest
    | _ => encodePairs field rest

def encodeTypedMembers : List (Key × Agg) → List (String × Json)
  | [] => []
  | (key, a) :: rest =>
    (key.toJsonKey, .obj [("type", .str a.typeName), ("data", encodeFrag a false)]) :: encodeTypedMembers rest

def encodeTypedList : List (Key × Agg) → List Json
  | [] => []
  | (_, a) :: rest => .obj [("type", .str a.typeName), ("data", encodeFrag a false)] :: encodeTypedList rest

end

/-- `Container.toJson()`. -/
def encode (a : Agg) : Json :=
  .obj [("type", .str a.typeName), ("data", encodeFrag a false), ("version", .str specVersion)]

/-! ### decode -/

/-- quantity of a reloaded container: not callable, keeps only its name -/
def deadQty (name : Option String) : Qty := ⟨0, name, false⟩

def entriesOf? (m : List (String × Json)) : Option Val :=
  match (Json.get? "entries" m).bind Json.toVal? with
  | some e => if Val.lt e 0 then none else some e     -- `entries < 0.0` → ValueError
  | none => none

def parseRange (s : String) : BagRange :=
  if s = "S" then .S
  else if s = "N" then .N
  else match (s.drop 1).toString.toNat? with
    | some n => if s.startsWith "N" then .Nn n else .S
    | none => .S

def bkeyOf? (r : BagRange) : Json → Option BKey
  | .str "nan" => match r with | .S => some (.str "nan") | .N => some (.num .nan) | _ => none
  | .str "inf" => match r with | .S => some (.str "inf") | .N => some (.num .pinf) | _ => none
  | .str "-inf" => match r with | .S => some (.str "-inf") | .N => some (.num .ninf) | _ => none
  | .num q => match r with | .N => some (.num (.fin q)) | _ => none
  | .str s => match r with | .S => some (.str s) | _ => none
  | .arr l => match r with
      | .Nn n => if l.length = n then (l.mapM Json.toVal?).map .vec else none
      | _ => none
  | _ => none

def isKnownType (s : String) : Bool :=
  ["Count", "Sum", "Average", "Deviate", "Minimize", "Maximize", "Bag", "Bin", "SparselyBin",
   "CentrallyBin", "IrregularlyBin", "Stack", "Fraction", "Select", "Categorize", "Label",
   "UntypedLabel", "Index", "Branch"].contains s

def allSameType : List (Key × Agg) → Bool
  | [] => true
  | (_, a) :: rest =>
    rest.all (fun p => p.2.typeName == a.typeName &&
      (match a.kind, p.2.kind with
       | .bag _ r1, .bag _ r2 => decide (r1 = r2)
       | _, _ => true))

def strictlyIncreasing : List Rat → Bool
  | [] => true
  | [_] => true
  | a :: b :: rest => decide (a < b) && strictlyIncreasing (b :: rest)

/-- `fromJsonFragment(json, nameFromParent)` for the factory named `ty`, with fuel. -/
def decodeFrag : Nat → String → Json → Option String → Option Agg
  | 0, _, _, _ => none
  | fuel + 1, ty, j, parentName =>
    let sub (t : String) (x : Json) (nm : Option String) : Option Agg := decodeFrag fuel t x nm
    let named (m : List (String × Json)) : Option (Option String) :=
      (Json.optStr? m "name").map (fun n => match n with | some s => some s | none => parentName)
    match ty, j with
    | "Count", x =>
        match Json.toVal? x with
        | some e => if Val.lt e 0 then none else some (.node .count e .unit none [])
        | none => none
    | "Sum", .obj m =>
        if !Json.hasKeys m ["entries", "sum"] ["name"] then none else do
          let e ← entriesOf? m
          let nm ← named m
          let s ← (Json.get? "sum" m).bind Json.toVal?
          pure (.node (.sum (deadQty nm)) e (.sum s) none [])
    | "Average", .obj m =>
        if !Json.hasKeys m ["entries", "mean"] ["name"] then none else do
          let e ← entriesOf? m
          let nm ← named m
          let x ← (Json.get? "mean" m).bind Json.toVal?
          pure (.node (.average (deadQty nm)) e (.mean x) none [])
    | "Deviate", .obj m =>
        if !Json.hasKeys m ["entries", "mean", "variance"] ["name"] then none else do
          let e ← entriesOf? m
          let nm ← named m
          let x ← (Json.get? "mean" m).bind Json.toVal?
          let v ← (Json.get? "variance" m).bind Json.toVal?
          pure (.node (.deviate (deadQty nm)) e (.dev x (v * e)) none [])
    | "Minimize", .obj m =>
        if !Json.hasKeys m ["entries", "min"] ["name"] then none else do
          let e ← entriesOf? m
          let nm ← named m
          let x ← (Json.get? "min" m).bind Json.toVal?
          pure (.node (.minimize (deadQty nm)) e (.ext x) none [])
    | "Maximize", .obj m =>
        if !Json.hasKeys m ["entries", "max"] ["name"] then none else do
          let e ← entriesOf? m
          let nm ← named m
          let x ← (Json.get? "max" m).bind Json.toVal?
          pure (.node (.maximize (deadQty nm)) e (.ext x) none [])
    | "Bag", .obj m =>
        if !Json.hasKeys m ["entries", "values", "range"] ["name"] then none else do
          let e ← entriesOf? m
          let nm ← named m
          let r ← match Json.get? "range" m with | some (.str s) => some (parseRange s) | _ => none
          let vals ← match Json.get? "values" m with
            | some (.arr l) => l.mapM (fun x => match x with
                | .obj nv =>
                  if !Json.hasKeys nv ["w", "v"] [] then none else do
                    let w ← (Json.get? "w" nv).bind Json.toVal?
                    let v ← (Json.get? "v" nv).bind (bkeyOf? r)
                    pure (v, w)
                | _ => none)
            | _ => none
          -- two entries with the same value are rejected (a dict cannot hold both)
          if !(vals.map (·.1)).Nodup then none else
          pure (.node (.bag (deadQty nm) r) e (.bag vals) none [])
    | "Bin", .obj m =>
        if !Json.hasKeys m ["low", "high", "entries", "values:type", "values", "underflow:type",
            "underflow", "overflow:type", "overflow", "nanflow:type", "nanflow"] ["name", "values:name"]
        then none else do
          let low ← (Json.get? "low" m).bind Json.toRat?
          let high ← (Json.get? "high" m).bind Json.toRat?
          let e ← entriesOf? m
          let nm ← named m
          let vt ← match Json.get? "values:type" m with | some (.str s) => some s | _ => none
          let vn ← Json.optStr? m "values:name"
          let vals ← match Json.get? "values" m with
            | some (.arr l) => l.mapM (fun x => sub vt x vn)
            | _ => none
          let ut ← match Json.get? "underflow:type" m with | some (.str s) => some s | _ => none
          let u ← (Json.get? "underflow" m).bind (fun x => sub ut x none)
          let ot ← match Json.get? "overflow:type" m with | some (.str s) => some s | _ => none
          let o ← (Json.get? "overflow" m).bind (fun x => sub ot x none)
          let nt ← match Json.get? "nanflow:type" m with | some (.str s) => some s | _ => none
          let n ← (Json.get? "nanflow" m).bind (fun x => sub nt x none)
          if !(low < high) || vals.isEmpty then none else
          pure (.node (.bin (deadQty nm) vals.length low high) e .unit none
                  ([(.under, u), (.over, o), (.nanflow, n)] ++ vals.zipIdx.map (fun p => (.pos p.2, p.1))))
    | "SparselyBin", .obj m =>
        if !Json.hasKeys m ["binWidth", "entries", "bins:type", "bins", "nanflow:type", "nanflow", "origin"]
            ["name", "bins:name"] then none else do
          let width ← (Json.get? "binWidth" m).bind Json.toRat?
          let e ← entriesOf? m
          let nm ← named m
          let bt ← match Json.get? "bins:type" m with | some (.str s) => some s | _ => none
          let bn ← Json.optStr? m "bins:name"
          let bins ← match Json.get? "bins" m with
            | some (.obj bm) => bm.mapM (fun kv => do
                let i ← kv.1.toInt?
                let a ← sub bt kv.2 bn
                pure (Key.idx i, a))
            | _ => none
          let nt ← match Json.get? "nanflow:type" m with | some (.str s) => some s | _ => none
          let n ← (Json.get? "nanflow" m).bind (fun x => sub nt x none)
          let origin ← (Json.get? "origin" m).bind Json.toRat?
          if !(0 < width) || !isKnownType bt then none else
          -- two keys that denote the same bin index ("1" and "01") are rejected, not merged into one bin
          if !(bins.map (·.1)).Nodup then none else
          pure (.node (.sparse (deadQty nm) width origin bt bn) e .unit none
                  ((.nanflow, n) :: bins.foldl (fun acc p => insertK p.1 p.2 acc) []))
    | "CentrallyBin", .obj m =>
        if !Json.hasKeys m ["entries", "bins:type", "bins", "nanflow:type", "nanflow"] ["name", "bins:name"]
        then none else do
          let e ← entriesOf? m
          let nm ← named m
          let bt ← match Json.get? "bins:type" m with | some (.str s) => some s | _ => none
          let bn ← Json.optStr? m "bins:name"
          let bins ← match Json.get? "bins" m with
            | some (.arr l) => l.mapM (fun x => match x with
                | .obj bp =>
                  if !Json.hasKeys bp ["center", "data"] [] then none else do
                    let c ← (Json.get? "center" bp).bind Json.toRat?
                    let a ← (Json.get? "data" bp).bind (fun y => sub bt y bn)
                    pure (Key.ctr c, a)
                | _ => none)
            | _ => none
          let nt ← match Json.get? "nanflow:type" m with | some (.str s) => some s | _ => none
          let n ← (Json.get? "nanflow" m).bind (fun x => sub nt x none)
          if bins.length < 2 then none else
          pure (.node (.central (deadQty nm)) e .unit none ((.nanflow, n) :: bins))
    | "IrregularlyBin", .obj m | "Stack", .obj m =>
        if !Json.hasKeys m ["entries", "bins:type", "bins", "nanflow:type", "nanflow"] ["name", "bins:name"]
        then none else do
          let e ← entriesOf? m
          let nm ← named m
          let bt ← match Json.get? "bins:type" m with | some (.str s) => some s | _ => none
          let bn ← Json.optStr? m "bins:name"
          let nt ← match Json.get? "nanflow:type" m with | some (.str s) => some s | _ => none
          let n ← (Json.get? "nanflow" m).bind (fun x => sub nt x none)
          let bins ← match Json.get? "bins" m with
            | some (.arr l) => l.mapM (fun x => match x with
                | .obj bp =>
                  if !Json.hasKeys bp ["atleast", "data"] [] then none else do
                    let t ← (Json.get? "atleast" bp).bind Json.toVal?
                    let a ← (Json.get? "data" bp).bind (fun y => sub bt y bn)
                    pure (Key.thr t, a)
                | _ => none)
            | _ => none
          if bins.isEmpty then none else
          pure (.node (if ty = "Stack" then .stack (deadQty nm) else .irregular (deadQty nm)) e .unit none
                  ((.nanflow, n) :: bins))
    | "Fraction", .obj m =>
        if !Json.hasKeys m ["entries", "sub:type", "numerator", "denominator"] ["name", "sub:name"]
        then none else do
          let e ← entriesOf? m
          let nm ← named m
          let stp ← match Json.get? "sub:type" m with | some (.str s) => some s | _ => none
          let sn ← Json.optStr? m "sub:name"
          let num ← (Json.get? "numerator" m).bind (fun x => sub stp x sn)
          let den ← (Json.get? "denominator" m).bind (fun x => sub stp x sn)
          pure (.node (.fraction (deadQty nm)) e .unit none [(.den, den), (.num, num)])
    | "Select", .obj m =>
        if !Json.hasKeys m ["entries", "sub:type", "data"] ["name"] then none else do
          let e ← entriesOf? m
          let nm ← named m
          let stp ← match Json.get? "sub:type" m with | some (.str s) => some s | _ => none
          let c ← (Json.get? "data" m).bind (fun x => sub stp x none)
          pure (.node (.select (deadQty nm)) e .unit none [(.cut, c)])
    | "Categorize", .obj m =>
        if !Json.hasKeys m ["entries", "bins:type", "bins"] ["name", "bins:name"] then none else do
          let e ← entriesOf? m
          let nm ← named m
          let bt ← match Json.get? "bins:type" m with | some (.str s) => some s | _ => none
          let bn ← Json.optStr? m "bins:name"
          let bins ← match Json.get? "bins" m with
            | some (.obj bm) => bm.mapM (fun kv => do
                let a ← sub bt kv.2 bn
                pure (Key.cat kv.1, a))
            | _ => none
          if !isKnownType bt then none else
          pure (.node (.categorize (deadQty nm) bt bn) e .unit none
                  (bins.foldl (fun acc p => insertK p.1 p.2 acc) []))
    | "Label", .obj m =>
        if !Json.hasKeys m ["entries", "sub:type", "data"] [] then none else do
          let e ← entriesOf? m
          let stp ← match Json.get? "sub:type" m with | some (.str s) => some s | _ => none
          let pairs ← match Json.get? "data" m with
            | some (.obj dm) => dm.mapM (fun kv => do
                let a ← sub stp kv.2 none
                pure (Key.lbl kv.1, a))
            | _ => none
          if pairs.isEmpty || !allSameType pairs then none else
          pure (.node .label e .unit none pairs)
    | "UntypedLabel", .obj m =>
        if !Json.hasKeys m ["entries", "data"] [] then none else do
          let e ← entriesOf? m
          let pairs ← match Json.get? "data" m with
            | some (.obj dm) => dm.mapM (fun kv => match kv.2 with
                | .obj tm =>
                  if !Json.hasKeys tm ["type", "data"] [] then none else do
                    let t ← match Json.get? "type" tm with | some (.str s) => some s | _ => none
                    let a ← (Json.get? "data" tm).bind (fun y => sub t y none)
                    pure (Key.lbl kv.1, a)
                | _ => none)
            | _ => none
          pure (.node .untypedLabel e .unit none pairs)
    | "Index", .obj m =>
        if !Json.hasKeys m ["entries", "sub:type", "data"] [] then none else do
          let e ← entriesOf? m
          let stp ← match Json.get? "sub:type" m with | some (.str s) => some s | _ => none
          let vals ← match Json.get? "data" m with
            | some (.arr l) => l.mapM (fun x => sub stp x none)
            | _ => none
          let pairs := vals.zipIdx.map (fun p => (Key.ith p.2, p.1))
          if pairs.isEmpty || !allSameType pairs then none else
          pure (.node .index e .unit none pairs)
    | "Branch", .obj m =>
        if !Json.hasKeys m ["entries", "data"] [] then none else do
          let e ← entriesOf? m
          let vals ← match Json.get? "data" m with
            | some (.arr l) => l.mapM (fun x => match x with
                | .obj tm =>
                  if !Json.hasKeys tm ["type", "data"] [] then none else do
                    let t ← match Json.get? "type" tm with | some (.str s) => some s | _ => none
                    (Json.get? "data" tm).bind (fun y => sub t y none)
                | _ => none)
            | _ => none
          if vals.isEmpty then none else
          pure (.node .branch e .unit none (vals.zipIdx.map (fun p => (Key.ith p.2, p.1))))
    | _, _ => none

/-- `version.compatible(v)`: at least two integer components (split on `.`/`-`), compatible unless
both major and minor are greater than ours (1.1). -/
def versionOk (v : String) : Bool :=
  let parts := (v.split (fun c => c = '.' || c = '-')).toList.map (·.toString)
  match parts.mapM String.toNat? with
  | some (major :: minor :: _) => decide (major ≤ 1) || decide (minor ≤ 1)
  | _ => false

/-- `Factory.fromJson(json)` on a parsed document. -/
def decode (j : Json) : Option Agg :=
  match j with
  | .obj m =>
    if !Json.hasKeys m ["type", "data", "version"] [] then none
    else match Json.get? "version" m, Json.get? "type" m, Json.get? "data" m with
      | some (.str v), some (.str ty), some d =>
        if !versionOk v then none
        else if !isKnownType ty then none
        else decodeFrag (d.depth + 1) ty d none
      | _, _, _ => none
  | _ => none

end Hg
