/-
  Hg.Model.Ops — fill, zero, merge (+, +=), scaling, copy on the aggregator tree.

  All recursion is structural (mutual over `Agg`, its child list and its optional template), so
  every definition reduces in the kernel and comes with a functional-induction principle.
-/
import Hg.Model.Route

namespace Hg

/-- Insert a new child keeping the list sorted by `Key.lt` (SparselyBin / Categorize bins). -/
def insertK (key : Key) (a : Agg) : List (Key × Agg) → List (Key × Agg)
  | [] => [(key, a)]
  | (k, b) :: rest =>
    if Key.lt key k then (key, a) :: (k, b) :: rest else (k, b) :: insertK key a rest

def hasKey {α : Type} (key : Key) (l : List (Key × α)) : Bool := (lookupK key l).isSome

/-! ### fill -/

mutual
/-- `Container.fill(datum, weight)`.  Returns the updated tree and whether the call raised; the
order of effects follows the code (validate the quantity, fill the child, then increment
`entries`; a new sparse bin is kept only once its first fill succeeded), because C12 is about what
is left behind when a step raises. -/
def fill : Agg → Datum → Val → Agg × Outcome
  | .node k e st tmpl kids, d, w =>
    if !w.pos then (.node k e st tmpl kids, .ok)
    else if k.isLeaf then
      match leafFill k e st d w with
      | .ok (e', st') => (.node k e' st' tmpl kids, .ok)
      | .error f => (.node k e st tmpl kids, .raised f)
    else
      match route k (keysOf kids) d w with
      | .error f => (.node k e st tmpl kids, .raised f)
      | .ok targets =>
        match k.isSparse, targets with
        | true, [(key, w')] =>
          if hasKey key kids then
            let r := fillKids kids targets d
            (.node k (if r.2.isOk then e + w else e) st tmpl r.1, r.2)
          else
            -- a new bin: `self.value.copy()` / `self.value.zero()` of the (zero) template
            let r := fillTmpl tmpl d w'
            match r with
            | some (nb, .ok) => (.node k (e + w) st tmpl (insertK key nb kids), .ok)
            | some (_, .raised f) => (.node k e st tmpl kids, .raised f)
            | none => (.node k e st tmpl kids, .raised .typeErr)   -- no template (reloaded container)
        | _, _ =>
          let r := fillKids kids targets d
          (.node k (if r.2.isOk then e + w else e) st tmpl r.1, r.2)

/-- Fill, in child order, every child that is a routing target; stop at the first one that raises. -/
def fillKids : List (Key × Agg) → List (Key × Val) → Datum → List (Key × Agg) × Outcome
  | [], _, _ => ([], .ok)
  | (key, a) :: rest, targets, d =>
    match lookupK key targets with
    | none =>
      let r := fillKids rest targets d
      ((key, a) :: r.1, r.2)
    | some w' =>
      let ra := fill a d w'
      if ra.2.isOk then
        let r := fillKids rest targets d
        ((key, ra.1) :: r.1, r.2)
      else ((key, ra.1) :: rest, ra.2)

def fillTmpl : Option Agg → Datum → Val → Option (Agg × Outcome)
  | none, _, _ => none
  | some t, d, w => some (fill t d w)
end

/-- Left fold of `fill` over a stream, ignoring raised fills' outcomes (the state they leave is
kept, as in `try: h.fill(d) except: continue`). -/
def fillAll (t : Agg) (s : List (Datum × Val)) : Agg :=
  s.foldl (fun acc dw => (fill acc dw.1 dw.2).1) t

/-! ### zero -/

mutual
/-- `Container.zero()`: same parameters, no content.  Sparse containers drop their bins (keeping
the nanflow), every other container zeroes each child. -/
def zero : Agg → Agg
  | .node k _ _ tmpl kids =>
    match k with
    | .sparse .. => .node k 0 (St.zero k) tmpl (zeroFlows kids)
    | .categorize .. => .node k 0 (St.zero k) tmpl []
    | _ => .node k 0 (St.zero k) tmpl (zeroKids kids)

def zeroKids : List (Key × Agg) → List (Key × Agg)
  | [] => []
  | (key, a) :: rest => (key, zero a) :: zeroKids rest

/-- Of a SparselyBin only the nanflow child survives `zero()`. -/
def zeroFlows : List (Key × Agg) → List (Key × Agg)
  | [] => []
  | (key, a) :: rest => if key = .nanflow then (key, zero a) :: zeroFlows rest else zeroFlows rest
end

/-! ### merge -/

/-- The structural parameters `__add__` compares at one node (quantities are not compared). -/
def Kind.sameShape : Kind → Kind → Bool
  | .count, .count => true
  | .sum _, .sum _ => true
  | .average _, .average _ => true
  | .deviate _, .deviate _ => true
  | .minimize _, .minimize _ => true
  | .maximize _, .maximize _ => true
  | .bag _ r1, .bag _ r2 => r1 = r2
  | .bin _ n1 l1 h1, .bin _ n2 l2 h2 => n1 = n2 && l1 = l2 && h1 = h2 && n1 ≠ 0
  | .sparse _ w1 o1 c1 _, .sparse _ w2 o2 c2 _ => w1 = w2 && o1 = o2 && c1 = c2
  | .central _, .central _ => true
  | .irregular _, .irregular _ => true
  | .stack _, .stack _ => true
  | .fraction _, .fraction _ => true
  | .select _, .select _ => true
  | .categorize _ c1 _, .categorize _ c2 _ => c1 = c2
  | .label, .label => true
  | .untypedLabel, .untypedLabel => true
  | .index, .index => true
  | .branch, .branch => true
  | _, _ => false

/-- First bin (non-flow child) of a sparse container, the representative `_checkContentCompatible`
falls back to when there is no template. -/
def firstBin : List (Key × Agg) → Option Agg
  | [] => none
  | (key, a) :: rest => if key = .nanflow then firstBin rest else some a

mutual
/-- `compat a b` iff `a + b` does not raise: same primitive, same structural parameters, and
recursively compatible children (position by position for fixed layouts; for sparse containers the
flows, every shared bin, and the representatives — template or first bin — of both sides). -/
def compat : Agg → Agg → Bool
  | .node k1 _ _ t1 kids1, b =>
    match b with
    | .node k2 _ _ t2 kids2 =>
      k1.sameShape k2 &&
      (if k1.isSparse then
         compatShared kids1 kids2 &&
         (match (match t2 with | some t => some t | none => firstBin kids2) with
          | none => true
          | some th =>
            match t1 with
            | some m => compat m th
            | none => compatFirst kids1 th)
       else compatZip kids1 kids2)
termination_by structural a => a

/-- Fixed layouts: same keys in the same order, children pairwise compatible. -/
def compatZip : List (Key × Agg) → List (Key × Agg) → Bool
  | [], [] => true
  | (k1, a) :: r1, (k2, b) :: r2 => k1 = k2 && compat a b && compatZip r1 r2
  | _, _ => false
termination_by structural a => a

/-- Sparse layouts: every key present on both sides must hold compatible children. -/
def compatShared : List (Key × Agg) → List (Key × Agg) → Bool
  | [], _ => true
  | (k1, a) :: r1, kids2 =>
    (match lookupK k1 kids2 with
     | some b => compat a b
     | none => true) && compatShared r1 kids2
termination_by structural a => a

/-- `compat (firstBin kids) th`, written as a recursion over `kids` to stay structural. -/
def compatFirst : List (Key × Agg) → Agg → Bool
  | [], _ => true
  | (key, a) :: rest, th => if key = .nanflow then compatFirst rest th else compat a th
termination_by structural a => a

end

mutual
/-- The result of `a + b` for compatible operands (see `add`). -/
def addRaw : Agg → Agg → Agg
  | .node k1 e1 s1 t1 kids1, b =>
    match b with
    | .node _ e2 s2 _ kids2 =>
      if k1.isLeaf then
        let r := leafAdd k1 e1 s1 e2 s2
        .node k1 r.1 r.2 t1 kids1
      else if k1.isSparse then
        .node k1 (e1 + e2) s1 t1 (unionKids kids1 kids2)
      else
        .node k1 (e1 + e2) s1 t1 (zipKids kids1 kids2)

def zipKids : List (Key × Agg) → List (Key × Agg) → List (Key × Agg)
  | [], _ => []
  | (k1, a) :: r1, [] => (k1, a) :: r1
  | (k1, a) :: r1, (_, b) :: r2 => (k1, addRaw a b) :: zipKids r1 r2

/-- Keyed union of two sorted child lists; children present on both sides are merged. -/
def unionKids : List (Key × Agg) → List (Key × Agg) → List (Key × Agg)
  | [], ys => ys
  | (k1, a) :: r1, ys =>
    let lo := ys.takeWhile (fun p => Key.lt p.1 k1)
    let rest := ys.dropWhile (fun p => Key.lt p.1 k1)
    match rest with
    | [] => lo ++ (k1, a) :: unionKids r1 []
    | (k2, b) :: rest' =>
      if k2 = k1 then lo ++ (k1, addRaw a b) :: unionKids r1 rest'
      else lo ++ (k1, a) :: unionKids r1 rest
end

/-- `a + b`: raises (`none`) iff the operands are incompatible. -/
def add (a b : Agg) : Option Agg := if compat a b then some (addRaw a b) else none

/-- `Container.copy()` is `self + self.zero()` (defs.py). -/
def copy (a : Agg) : Option Agg := add a (zero a)

/-! ### scaling -/

mutual
/-- `a * f` for a factor that passed the gate. -/
def scale : Agg → Val → Agg
  | .node k e st tmpl kids, f => .node k (f * e) (leafMul k st f) tmpl (scaleKids kids f)

def scaleKids : List (Key × Agg) → Val → List (Key × Agg)
  | [], _ => []
  | (key, a) :: rest, f => (key, scale a f) :: scaleKids rest f
end

/-- `Container.__mul__` / `__rmul__`: `zero()` unless `factor > 0` (false for NaN). -/
def mul (a : Agg) (f : Val) : Agg := if f.pos then scale a f else zero a

/-! ### in-place merge -/

/-- `a += b` at the level of content: the new content of `a` and whether it raised.  This is the
*specified* behaviour (reject without touching `a`); `iaddCode` below follows the code's order of
effects, which differs for a mismatch nested below the root (DESIGN §9, finding 3). -/
def iadd (a b : Agg) : Agg × Outcome :=
  match add a b with
  | some c => (c, .ok)
  | none => (a, .raised .container)

end Hg
