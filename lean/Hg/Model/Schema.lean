/-
  Hg.Model.Schema — the key sets the model's decoder enforces, as a table:
  (record, required keys, optional keys) for every primitive's `fromJsonFragment`, the sub-records
  of list elements, and the header of `Factory.fromJson`.  `Hg.Generated.schema` is the same table
  extracted from /repo's source on every run; `Hg.C15.schema_matches` compares the two by `decide`,
  and `Hg.C15.decode_keys_gate` proves that `decodeFrag` accepts no record violating its row.
-/
import Hg.Model.Codec

namespace Hg

def modelSchema : List (String × List String × List String) :=
  [("Average", ["entries", "mean"], ["name"]),
   ("Bag", ["entries", "values", "range"], ["name"]),
   ("Bag.nv", ["w", "v"], []),
   ("Bin", ["low", "high", "entries", "values:type", "values", "underflow:type", "underflow", "overflow:type", "overflow", "nanflow:type", "nanflow"], ["name", "values:name"]),
   ("Branch", ["entries", "data"], []),
   ("Branch.x", ["type", "data"], []),
   ("Categorize", ["entries", "bins:type", "bins"], ["name", "bins:name"]),
   ("CentrallyBin", ["entries", "bins:type", "bins", "nanflow:type", "nanflow"], ["name", "bins:name"]),
   ("CentrallyBin.binpair", ["center", "data"], []),
   ("Deviate", ["entries", "mean", "variance"], ["name"]),
   ("Factory", ["type", "data", "version"], []),
   ("Fraction", ["entries", "sub:type", "numerator", "denominator"], ["name", "sub:name"]),
   ("Index", ["entries", "sub:type", "data"], []),
   ("IrregularlyBin", ["entries", "bins:type", "bins", "nanflow:type", "nanflow"], ["name", "bins:name"]),
   ("IrregularlyBin.elementPair", ["atleast", "data"], []),
   ("Label", ["entries", "sub:type", "data"], []),
   ("Maximize", ["entries", "max"], ["name"]),
   ("Minimize", ["entries", "min"], ["name"]),
   ("Select", ["entries", "sub:type", "data"], ["name"]),
   ("SparselyBin", ["binWidth", "entries", "bins:type", "bins", "nanflow:type", "nanflow", "origin"], ["name", "bins:name"]),
   ("Stack", ["entries", "bins:type", "bins", "nanflow:type", "nanflow"], ["name", "bins:name"]),
   ("Stack.elementPair", ["atleast", "data"], []),
   ("Sum", ["entries", "sum"], ["name"]),
   ("UntypedLabel", ["entries", "data"], []),
   ("UntypedLabel.v", ["type", "data"], [])]

def schemaOf (name : String) : Option (List String × List String) :=
  (modelSchema.find? (fun r => r.1 = name)).map (·.2)

end Hg
