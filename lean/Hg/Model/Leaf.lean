/-
  Hg.Model.Leaf — the seven leaf primitives: quantity evaluation, `fill` bodies, merge, scaling.

  Each definition transcribes the corresponding Python method branch by branch
  (count.py, sum.py, average.py, deviate.py, minmax.py, bag.py).
-/
import Hg.Model.Agg

namespace Hg

/-- `self.quantity(datum)` followed by the `isinstance(q, numbers.Real)` check of the numeric
primitives.  `bool` is a `numbers.Real` in Python. -/
def Qty.evalNum (q : Qty) (d : Datum) : Except Fault Val :=
  if !q.live then .error .typeErr   -- "immutable container (created from JSON or .ed) cannot be filled"
  else
    match d[q.col]? with
    | some (.num v) => .ok v
    | some (.bool b) => .ok (.fin (if b then 1 else 0))
    | some .raises => .error .userExc
    | some _ => .error .typeErr
    | none => .error .userExc        -- the record has no such field

/-- `floatOrNan` on a bag key is the identity on `Val` (NaN is kept as the key "nan"). -/
def bagKeyOf (r : BagRange) (c : Cell) : Except Fault BKey :=
  match r, c with
  | _, .raises => .error .userExc
  | .S, .str s => .ok (.str s)
  | .N, .num v => .ok (.num v)
  | .N, .bool b => .ok (.num (.fin (if b then 1 else 0)))
  | .Nn n, .vec l => if l.length = n then .ok (.vec l) else .error .typeErr
  | _, _ => .error .typeErr

def Qty.evalBag (q : Qty) (r : BagRange) (d : Datum) : Except Fault BKey :=
  if !q.live then .error .typeErr
  else
    match d[q.col]? with
    | some c => bagKeyOf r c
    | none => .error .userExc

/-- `values[q] += weight` on the sorted association list. -/
def bagInsert (key : BKey) (w : Val) : List (BKey × Val) → List (BKey × Val)
  | [] => [(key, w)]
  | (k, v) :: rest =>
    if k = key then (k, v + w) :: rest
    else if BKey.lt key k then (key, w) :: (k, v) :: rest
    else (k, v) :: bagInsert key w rest

/-- `Bag.__add__`: start from the left map and add every entry of the right one. -/
def bagMerge (m1 m2 : List (BKey × Val)) : List (BKey × Val) :=
  m2.foldl (fun acc kv => bagInsert kv.1 kv.2 acc) m1

def St.zero : Kind → St
  | .sum _ => .sum 0
  | .average _ => .mean .nan
  | .deviate _ => .dev .nan .nan
  | .minimize _ => .ext .nan
  | .maximize _ => .ext .nan
  | .bag _ _ => .bag []
  | _ => .unit

/-- The Tony-Finch mean update of `Average.fill` / `Deviate.fill`, with the explicit NaN and
infinity cases of `average.py:141-161`.  `e0` is `entries` before the call. -/
def meanUpdate (e0 mean0 q w : Val) : Val × Val :=
  let m := if e0.isZero then q else mean0
  let e := e0 + w
  if m.isNaN || q.isNaN then (e, .nan)
  else if m.isInf || q.isInf then
    let m1 := if m.isInf && q.isInf && Val.lt (m * q) 0 then Val.nan
              else if q.isInf then q else m
    (e, if e.isInf || e.isNaN then .nan else m1)
  else
    (e, m + (q - m) * w / e)

/-- Body of a leaf `fill` once the weight gate `weight > 0.0` has been passed.
Returns the new `(entries, state)` or the fault; on a fault nothing has been changed. -/
def leafFill (k : Kind) (e : Val) (st : St) (d : Datum) (w : Val) : Except Fault (Val × St) :=
  match k, st with
  | .count, _ => .ok (e + w, st)
  | .sum q, .sum s => do
      let x ← q.evalNum d
      pure (e + w, .sum (s + x * w))
  | .average q, .mean m => do
      let x ← q.evalNum d
      let (e', m') := meanUpdate e m x w
      pure (e', .mean m')
  | .deviate q, .dev m v => do
      let x ← q.evalNum d
      let m0 := if e.isZero then x else m
      let v0 := if e.isZero then (0 : Val) else v
      let (e', m') := meanUpdate e m x w
      let v' :=
        if m0.isNaN || x.isNaN then Val.nan
        else if m0.isInf || x.isInf then Val.nan
        else v0 + w * (x - m0) * (x - m')
      pure (e', .dev m' v')
  | .minimize q, .ext m => do
      let x ← q.evalNum d
      pure (e + w, .ext (if m.isNaN || Val.lt x m then x else m))
  | .maximize q, .ext m => do
      let x ← q.evalNum d
      pure (e + w, .ext (if m.isNaN || Val.lt m x then x else m))
  | .bag q r, .bag m => do
      let key ← q.evalBag r d
      pure (e + w, .bag (bagInsert key w m))
  | _, _ => .error .typeErr   -- ill-formed node (state does not match kind); unreachable for WF trees

/-- `__add__` of the leaf primitives on `(entries, state)` pairs of the same kind. -/
def leafAdd (k : Kind) (e1 : Val) (s1 : St) (e2 : Val) (s2 : St) : Val × St :=
  match k, s1, s2 with
  | .sum _, .sum a, .sum b => (e1 + e2, .sum (a + b))
  | .average _, .mean m1, .mean m2 =>
      (e1 + e2,
       .mean (if e1.isZero then m2 else if e2.isZero then m1
              else (e1 * m1 + e2 * m2) / (e1 + e2)))
  | .deviate _, .dev m1 v1, .dev m2 v2 =>
      if e1.isZero then (e1 + e2, .dev m2 v2)
      else if e2.isZero then (e1 + e2, .dev m1 v1)
      else
        let e := e1 + e2
        let m := (e1 * m1 + e2 * m2) / (e1 + e2)
        (e, .dev m (v1 + v2 + e1 * m1 * m1 + e2 * m2 * m2
                    - (2 : Val) * m * (e1 * m1 + e2 * m2) + m * m * e))
  | .minimize _, .ext a, .ext b => (e1 + e2, .ext (Val.minplus a b))
  | .maximize _, .ext a, .ext b => (e1 + e2, .ext (Val.maxplus a b))
  | .bag _ _, .bag a, .bag b => (e1 + e2, .bag (bagMerge a b))
  | _, _, _ => (e1 + e2, s1)

/-- `__mul__` of the leaf primitives for a factor that passed the gate `factor > 0`. -/
def leafMul (k : Kind) (st : St) (f : Val) : St :=
  match k, st with
  | .sum _, .sum s => .sum (f * s)
  | .deviate _, .dev m v => .dev m (f * v)
  | .bag _ _, .bag m => .bag (m.map (fun kv => (kv.1, f * kv.2)))
  | _, s => s

end Hg
