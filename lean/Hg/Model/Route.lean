/-
  Hg.Model.Route — which children of a container receive a datum, and with what weight.

  `route` depends only on the static parameters of the node, the keys of its children and the
  datum — never on aggregated state (DESIGN §3.4).  That is what makes merge a homomorphism.
-/
import Hg.Model.Leaf

namespace Hg

def LONG_MINUSINF : Int := -9223372036854775807
def LONG_PLUSINF : Int := 9223372036854775807

/-- `Bin.bin(x)` for a finite `x` with `low ≤ x < high`:
`min(floor(num * (x - low) / (high - low)), num - 1)`. -/
def binIndex (n : Nat) (low high x : Rat) : Nat :=
  let i := ((n : Rat) * (x - low) / (high - low)).floor
  min i.toNat (n - 1)

/-- `Bin.fill` routing: underflow if `x < low`, overflow if `x >= high`, nanflow if NaN. -/
def routeBin (n : Nat) (low high : Rat) (x : Val) : Key :=
  match x with
  | .nan => .nanflow
  | .ninf => .under
  | .pinf => .over
  | .fin q => if q < low then .under else if high ≤ q then .over else .pos (binIndex n low high q)

/-- `SparselyBin.bin(x)`: saturating 64-bit index of `floor((x - origin) / binWidth)`. -/
def sparseIndex (width origin : Rat) (x : Val) : Key :=
  match x with
  | .nan => .nanflow
  | .ninf => .idx LONG_MINUSINF
  | .pinf => .idx LONG_PLUSINF
  | .fin q =>
    let soft := (q - origin) / width
    if soft ≤ ((LONG_MINUSINF : Int) : Rat) then .idx LONG_MINUSINF
    else if ((LONG_PLUSINF : Int) : Rat) ≤ soft then .idx LONG_PLUSINF
    else .idx soft.floor

/-- Centres of a CentrallyBin, read off its children keys. -/
def centersOf : List Key → List Rat
  | [] => []
  | .ctr c :: ks => c :: centersOf ks
  | _ :: ks => centersOf ks

/-- `CentrallyBin.index(x)`: the first centre whose midpoint with the next one is above `x`
(a value exactly on a midpoint goes up); the last centre otherwise. -/
def centralPick (x : Val) : List Rat → Option Rat
  | [] => none
  | [c] => some c
  | c :: c' :: rest => if Val.lt x (.fin ((c + c') / 2)) then some c else centralPick x (c' :: rest)

def thresholdsOf : List Key → List Val
  | [] => []
  | .thr t :: ks => t :: thresholdsOf ks
  | _ :: ks => thresholdsOf ks

/-- `IrregularlyBin.fill`: the first bin with `q >= low and not q >= high`, where the bin after
the last one has threshold NaN. -/
def irregularPick (x : Val) : List Val → Option Val
  | [] => none
  | [t] => if Val.ge x t then some t else none
  | t :: t' :: rest =>
    if Val.ge x t && !(Val.ge x t') then some t else irregularPick x (t' :: rest)

/-- Result of routing: the children to fill, in the order the code fills them. -/
def route (k : Kind) (keys : List Key) (d : Datum) (w : Val) : Except Fault (List (Key × Val)) :=
  match k with
  | .bin q n low high => do
      let x ← q.evalNum d
      pure [(routeBin n low high x, w)]
  | .sparse q width origin _ _ => do
      let x ← q.evalNum d
      pure [(sparseIndex width origin x, w)]
  | .central q => do
      let x ← q.evalNum d
      if x.isNaN then pure [(.nanflow, w)]
      else match centralPick x (centersOf keys) with
        | some c => pure [(.ctr c, w)]
        | none => .error .typeErr
  | .irregular q => do
      let x ← q.evalNum d
      if x.isNaN then pure [(.nanflow, w)]
      else match irregularPick x (thresholdsOf keys) with
        | some t => pure [(.thr t, w)]
        | none => pure []
  | .stack q => do
      let x ← q.evalNum d
      if x.isNaN then pure [(.nanflow, w)]
      else pure ((thresholdsOf keys).filterMap (fun t => if Val.ge x t then some (.thr t, w) else none))
  | .fraction q => do
      let x ← q.evalNum d
      let w' := x * w
      pure ((.den, w) :: (if w'.pos then [(.num, w')] else []))
  | .select q => do
      let x ← q.evalNum d
      let w' := x * w
      pure (if w'.pos then [(.cut, w')] else [])
  | .categorize q _ _ =>
      if !q.live then .error .typeErr
      else match d[q.col]? with
        | some (.str s) => pure [(.cat s, w)]
        | some (.bool b) => pure [(.cat (if b then "True" else "False"), w)]
        | some .none => pure [(.cat "NaN", w)]
        | some (.num .nan) => pure [(.cat "NaN", w)]
        | some .raises => .error .userExc
        | some _ => .error .typeErr
        | none => .error .userExc
  | .label | .untypedLabel | .index | .branch => pure (keys.map (fun key => (key, w)))
  | _ => .error .typeErr    -- leaves are not routed

end Hg
