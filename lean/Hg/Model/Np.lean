/-
  Hg.Model.Np — the vectorised fill `fill.numpy(data, weights)`: every `_numpy` method transcribed
  on a batch of records with one weight per row (a scalar weight is the constant vector; the
  protocol of unknown batch length for scalar weights is outside the model: known finding
  C03-scalar-weight-count-first).

  Shape of every container `_numpy`: own `entries += Σ weights`; each child receives the *whole
  batch* with a masked weight vector (the weight the row-wise `route` would hand to that child, 0
  otherwise); SparselyBin creates bins for the indices met with positive weight, Categorize for
  every category met (also with zero weight — the "up to zero-weight bins" clause of C03).
  Leaves reduce the batch at once.  numpy's `bincount`/`unique`/`average` enter as their contracts
  (sum of weights per bin index, the index being `fill`'s own formula since fix 3678dd7 — before it,
  `numpy.histogram`; distinct values; weighted mean).
-/
import Hg.Model.Ops

namespace Hg

def sumW (ws : List Val) : Val := ws.foldl (fun acc w => acc + w) 0

/-- weighted sum `Σ w·x` over the selected rows, in row order -/
def wsum (xs ws : List Val) (sel : Val → Val → Bool) : Val :=
  (xs.zip ws).foldl (fun acc p => if sel p.1 p.2 then acc + p.1 * p.2 else acc) 0

def wtot (xs ws : List Val) (sel : Val → Val → Bool) : Val :=
  (xs.zip ws).foldl (fun acc p => if sel p.1 p.2 then acc + p.2 else acc) 0

def anySel (xs ws : List Val) (sel : Val → Val → Bool) : Bool :=
  (xs.zip ws).any (fun p => sel p.1 p.2)

/-- `Σ w·(x - mb)²` over the selected rows -/
def wsumSq (xs ws : List Val) (mb : Val) (sel : Val → Val → Bool) : Val :=
  (xs.zip ws).foldl (fun acc p => if sel p.1 p.2 then acc + p.2 * ((p.1 - mb) * (p.1 - mb)) else acc) 0

def selPos (_x w : Val) : Bool := w.pos
def selNum (x w : Val) : Bool := !x.isNaN && w.pos

/-- batch reduction of a leaf (`Count/Sum/Average/Deviate/Minimize/Maximize/Bag._numpy`) -/
def leafNp (k : Kind) (e : Val) (st : St) (rows : List Datum) (ws : List Val) : Except Fault (Val × St) :=
  match k, st with
  | .count, _ => .ok (e + sumW ws, st)
  | .sum q, .sum s => do
      let xs ← rows.mapM q.evalNum
      -- NaN quantities are dropped (known finding C03-sum-nan: the row-wise fill makes the sum NaN)
      pure (e + sumW ws, .sum (s + wsum xs ws selNum))
  | .average q, .mean m => do
      let xs ← rows.mapM q.evalNum
      let ca := e
      let ma := if e.isZero then (0 : Val) else m
      let cb := wtot xs ws selPos
      let e' := e + cb
      if e'.isInf then pure (e', .mean .nan)
      else if e'.pos && anySel xs ws selPos then
        let mb := wsum xs ws selPos / cb
        pure (e', .mean ((ca * ma + (e' - ca) * mb) / e'))
      else pure (e', .mean m)
  | .deviate q, .dev m v => do
      let xs ← rows.mapM q.evalNum
      let ca := e
      let ma := if e.isZero then (0 : Val) else m
      let sa := if e.isZero then (0 : Val) else v
      let cb0 := wtot xs ws selPos
      let e' := e + cb0
      if e'.isInf then pure (e', .dev .nan .nan)
      else if e'.pos && anySel xs ws selPos then
        let cb := e' - ca
        let mb := wsum xs ws selPos / cb0
        let sb := cb * (wsumSq xs ws mb selPos / cb0)
        let mean := (ca * ma + (e' - ca) * mb) / e'
        pure (e', .dev mean (sa + sb + ca * ma * ma + cb * mb * mb - (2 : Val) * mean * (ca * ma + cb * mb) + mean * mean * e'))
      else pure (e', .dev m v)
  | .minimize q, .ext m => do
      let xs ← rows.mapM q.evalNum
      let cand := ((xs.zip ws).filter (fun p => selNum p.1 p.2)).map (·.1)
      let m' := cand.foldl (fun acc x => if acc.isNaN || Val.lt x acc then x else acc) m
      pure (e + sumW ws, .ext m')
  | .maximize q, .ext m => do
      let xs ← rows.mapM q.evalNum
      let cand := ((xs.zip ws).filter (fun p => selNum p.1 p.2)).map (·.1)
      let m' := cand.foldl (fun acc x => if acc.isNaN || Val.lt acc x then x else acc) m
      pure (e + sumW ws, .ext m')
  | .bag q r, .bag m => do
      let keys ← rows.mapM (q.evalBag r)
      let r := (keys.zip ws).foldl (fun (acc : Val × List (BKey × Val)) p =>
        if p.2.pos then (acc.1 + p.2, bagInsert p.1 p.2 acc.2) else acc) (e, m)
      pure (r.1, .bag r.2)
  | _, _ => .error .typeErr

/-- the weight vector child `key` receives: what `route` hands it row by row, 0 elsewhere -/
def maskFor (k : Kind) (keys : List Key) (key : Key) (rows : List Datum) (ws : List Val) : Except Fault (List Val) :=
  (rows.zip ws).mapM (fun p => do
    let targets ← route k keys p.1 p.2
    pure (match lookupK key targets with | some w' => w' | none => (0 : Val)))

/-- the keys of the bins a sparse container touches in this batch, in first-occurrence order:
SparselyBin — indices of rows with positive weight; Categorize — categories of all rows -/
def batchKeys (k : Kind) (keys : List Key) (rows : List Datum) (ws : List Val) : Except Fault (List Key) :=
  (rows.zip ws).foldlM (fun (acc : List Key) p => do
    let targets ← route k keys p.1 (if p.2.pos then p.2 else 1)
    let consider := match k with | .categorize .. => true | _ => p.2.pos
    pure (match targets with
      | [(key, _)] => if consider && key != .nanflow && !acc.contains key then acc ++ [key] else acc
      | _ => acc)) []

mutual
/-- `fill.numpy` of a whole batch.  `none` = some quantity raised or returned a wrong type. -/
def fillNp : Agg → List Datum → List Val → Option Agg
  | .node k e st tmpl kids, rows, ws =>
    if k.isLeaf then
      match leafNp k e st rows ws with
      | .ok (e', st') => some (.node k e' st' tmpl kids)
      | .error _ => none
    else if k.isSparse then
      -- existing flows are always visited; bins only when the batch touches their key
      match batchKeys k (keysOf kids) rows ws with
      | .error _ => none
      | .ok touched =>
        match fillNpSparse kids k (keysOf kids) touched rows ws with
        | none => none
        | some kids' =>
          -- bins the batch creates
          let newKeys := touched.filter (fun key => !(hasKey key kids))
          match fillNpNew tmpl k (keysOf kids) newKeys rows ws with
          | none => none
          | some created =>
            some (.node k (e + sumW ws) st tmpl (created.foldl (fun acc p => insertK p.1 p.2 acc) kids'))
    else
      match fillNpKids kids k (keysOf kids) rows ws with
      | none => none
      | some kids' => some (.node k (e + sumW ws) st tmpl kids')

/-- fixed layouts: every child gets the whole batch with its mask -/
def fillNpKids : List (Key × Agg) → Kind → List Key → List Datum → List Val → Option (List (Key × Agg))
  | [], _, _, _, _ => some []
  | (key, a) :: rest, k, keys, rows, ws =>
    match maskFor k keys key rows ws with
    | .error _ => none
    | .ok mask =>
      match fillNp a rows mask, fillNpKids rest k keys rows ws with
      | some a', some rest' => some ((key, a') :: rest')
      | _, _ => none

/-- sparse layouts: the nanflow child always, an existing bin only if the batch touches its key -/
def fillNpSparse : List (Key × Agg) → Kind → List Key → List Key → List Datum → List Val → Option (List (Key × Agg))
  | [], _, _, _, _, _ => some []
  | (key, a) :: rest, k, keys, touched, rows, ws =>
    if key = .nanflow || touched.contains key then
      match maskFor k keys key rows ws with
      | .error _ => none
      | .ok mask =>
        match fillNp a rows mask, fillNpSparse rest k keys touched rows ws with
        | some a', some rest' => some ((key, a') :: rest')
        | _, _ => none
    else
      match fillNpSparse rest k keys touched rows ws with
      | some rest' => some ((key, a) :: rest')
      | none => none

/-- new bins: a zero copy of the template filled with the mask of its key -/
def fillNpNew : Option Agg → Kind → List Key → List Key → List Datum → List Val → Option (List (Key × Agg))
  | none, _, _, newKeys, _, _ => if newKeys.isEmpty then some [] else none
  | some t, k, keys, newKeys, rows, ws =>
    newKeys.mapM (fun key =>
      match maskFor k keys key rows ws with
      | .error _ => none
      | .ok mask => (fillNp t rows mask).map (fun b => (key, b)))
end

mutual
/-- drop sparse bins / categories / bag keys that hold zero weight -/
def prune : Agg → Agg
  | .node k e st tmpl kids =>
    let st' := match st with
      | .bag m => St.bag (m.filter (fun kv => !kv.2.isZero))
      | s => s
    if k.isSparse then .node k e st' tmpl (pruneBins kids) else .node k e st' tmpl (pruneKids kids)
def pruneKids : List (Key × Agg) → List (Key × Agg)
  | [] => []
  | (key, a) :: rest => (key, prune a) :: pruneKids rest
def pruneBins : List (Key × Agg) → List (Key × Agg)
  | [] => []
  | (key, a) :: rest =>
    if key != .nanflow && a.entries.isZero then pruneBins rest else (key, prune a) :: pruneBins rest
end

end Hg

namespace Hg

/-- weights of a vectorised fill: finite and non-negative -/
def nonNegW (ws : List Val) : Bool :=
  ws.all (fun w => match w with | .fin q => decide (0 ≤ q) | _ => false)

mutual
/-- no record of the batch has a NaN quantity for any `Sum` node of the tree (templates included):
the trigger region of known finding C03-sum-nan, excluded by hypothesis -/
def noNanForSums : Agg → List Datum → Bool
  | .node k _ _ tmpl kids, rows =>
    (match k with
     | .sum q => rows.all (fun d => match q.evalNum d with | .ok v => !v.isNaN | .error _ => true)
     | _ => true) && noNanForSumsOpt tmpl rows && noNanForSumsKids kids rows
def noNanForSumsOpt : Option Agg → List Datum → Bool
  | none, _ => true
  | some t, rows => noNanForSums t rows
def noNanForSumsKids : List (Key × Agg) → List Datum → Bool
  | [], _ => true
  | (_, a) :: rest, rows => noNanForSums a rows && noNanForSumsKids rest rows
end

end Hg
