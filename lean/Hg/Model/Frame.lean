/-
  Hg.Model.Frame — the dataframe interface (`make_histograms`, `HistogramFillerBase`,
  `PandasHistogrammar`): how the bin specification of every dimension of a feature is resolved
  (`var_bin_specs`), how the nested primitive tree of a feature is built (`construct_empty_hist`,
  `get_hist_bin`), and the fill of that tree from the converted columns (`_fill_histogram`:
  one `fill.numpy` call with unit weights).

  A frame is a list of records (`Datum`); a column is a position in the record.  Timestamp columns are
  already converted to nanoseconds (the conversion `to_ns` is outside the model: it is exercised by the
  correspondence run).  The automatic binning (`auto_complete_bin_specs`: quantiles of the data) is
  outside the model as well: its *result* is part of `bin_specs`, which is what `ret_specs=True`
  returns and what the chunked runs are given.
-/
import Hg.Model.Np

namespace Hg

/-- a bin specification of one dimension, after interpretation by `get_hist_bin`
(`{"binWidth","origin"}`, `{"num","low","high"}`, `{"edges"}`, `{"centers"}`; booleans are categories) -/
inductive AxisSpec where
  | sparse (width origin : Rat)
  | bin (n : Nat) (low high : Rat)
  | irregular (edges : List Rat)
  | central (centers : List Rat)
  | categorize
  deriving DecidableEq, Repr, Inhabited

/-- data type of a column as `var_dtype` records it -/
inductive ColType where
  | num | time | bool
  deriving DecidableEq, Repr, Inhabited

structure Column where
  name : String
  pos : Nat
  ty : ColType
  deriving DecidableEq, Repr, Inhabited

/-- `bin_specs`: 1-dim entries `'x': {...}` and n-dim entries `'x:y': [{}, {...}]`, where `{}` (here
`none`) means "revert to the 1-dim setting of that variable" -/
structure BinSpecs where
  one : List (String × AxisSpec)
  many : List (String × List (Option AxisSpec))
  deriving Repr, Inhabited

def featureName (cols : List Column) : String := ":".intercalate (cols.map (·.name))

/-- `_unit_bin_specs` / `_unit_timestamp_specs` (30 days from Monday 2010-01-04, in ns) -/
def defaultSpec : ColType → AxisSpec
  | .time => .sparse 2592000000000000 1262563200000000000
  | _ => .sparse 1 0

/-- 1-dim setting of a variable, or the unit default -/
def oneDimSpec (bs : BinSpecs) (c : Column) : AxisSpec :=
  match bs.one.lookup c.name with
  | some s => s
  | none => defaultSpec c.ty

/-- `var_bin_specs(c, idx)` followed by the type dispatch of `get_hist_bin`: the n-dim entry when the
feature has one of the right length and it is not `{}`, else the 1-dim setting, else the unit default;
boolean columns are categories whatever the specification says -/
def resolve (bs : BinSpecs) (feature : List Column) (idx : Nat) : Option AxisSpec :=
  match feature[idx]? with
  | none => none
  | some c =>
    if c.ty = .bool then some .categorize
    else
      let picked : AxisSpec :=
        if feature.length > 1 then
          match bs.many.lookup (featureName feature) with
          | some l =>
            if l.length = feature.length then
              match l[idx]? with
              | some (some s) => s
              | _ => oneDimSpec bs c
            else oneDimSpec bs c
          | none => oneDimSpec bs c
        else oneDimSpec bs c
      some picked

/-- the resolved axes of a feature, outermost first: (record position, specification) -/
def axesOf (bs : BinSpecs) (feature : List Column) : Option (List (Nat × AxisSpec)) :=
  (List.range feature.length).mapM (fun i =>
    match feature[i]?, resolve bs feature i with
    | some c, some s => some (c.pos, s)
    | _, _ => none)

def countZero : Agg := .node .count 0 .unit none []

/-- `get_hist_bin`: wrap the histogram of the inner dimensions in the container of this one -/
def AxisSpec.wrap (pos : Nat) (s : AxisSpec) (v : Agg) : Agg :=
  let q : Qty := ⟨pos, none, true⟩
  match s with
  | .sparse w o => .node (.sparse q w o v.typeName v.qtyName) 0 .unit (some v) [(.nanflow, countZero)]
  | .bin n l h => .node (.bin q n l h) 0 .unit none
      ([(.under, countZero), (.over, countZero), (.nanflow, countZero)] ++ (List.range n).map (fun i => (.pos i, v)))
  | .irregular es => .node (.irregular q) 0 .unit none
      ((.nanflow, countZero) :: (.thr .ninf, v) :: es.map (fun e => (.thr (.fin e), v)))
  | .central cs => .node (.central q) 0 .unit none ((.nanflow, countZero) :: cs.map (fun c => (.ctr c, v)))
  | .categorize => .node (.categorize q v.typeName v.qtyName) 0 .unit (some v) []

/-- `construct_empty_hist`: iterate the dimensions in reverse order around a `Count` -/
def mkTree : List (Nat × AxisSpec) → Agg
  | [] => countZero
  | (pos, s) :: rest => s.wrap pos (mkTree rest)

def unitWeights (rows : List Datum) : List Val := rows.map (fun _ => (1 : Val))

/-- the histogram `make_histograms` returns for one feature -/
def makeHist (bs : BinSpecs) (feature : List Column) (rows : List Datum) : Option Agg :=
  (axesOf bs feature).bind (fun axes => fillNp (mkTree axes) rows (unitWeights rows))

/-- the same tree filled directly, record by record -/
def directHist (bs : BinSpecs) (feature : List Column) (rows : List Datum) : Option Agg :=
  (axesOf bs feature).map (fun axes => fillAll (mkTree axes) (rows.zip (unitWeights rows)))

/-- strictly increasing -/
def strictSorted : List Rat → Bool
  | [] => true
  | [_] => true
  | a :: b :: rest => decide (a < b) && strictSorted (b :: rest)

/-- specifications the primitives accept -/
def AxisSpec.valid : AxisSpec → Bool
  | .sparse w _ => decide (0 < w)
  | .bin n l h => decide (0 < n) && decide (l < h)
  | .irregular es => !es.isEmpty && strictSorted es
  | .central cs => decide (2 ≤ cs.length) && strictSorted cs
  | .categorize => true

def axesValid (axes : List (Nat × AxisSpec)) : Bool := axes.all (fun a => a.2.valid)

end Hg
