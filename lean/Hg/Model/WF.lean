/-
  Hg.Model.WF — executable well-formedness predicates used as hypotheses of the property theorems.

  They are `Bool`-valued so that the driver can evaluate them on every state the correspondence run
  reaches (`good` / `samebase` protocol ops): the hypotheses of the theorems are checked to hold on
  the states of the real library, not merely assumed.
-/
import Hg.Model.Ops

namespace Hg

/-- the scalar state has the constructor its kind requires -/
def St.fits : Kind → St → Bool
  | .sum _, .sum _ => true
  | .average _, .mean _ => true
  | .deviate _, .dev _ _ => true
  | .minimize _, .ext _ => true
  | .maximize _, .ext _ => true
  | .bag _ _, .bag _ => true
  | .count, .unit => true
  | k, .unit => !k.isLeaf
  | _, _ => false

/-- strictly increasing w.r.t. `Key.lt` -/
def sortedKeys : List Key → Bool
  | [] => true
  | [_] => true
  | a :: b :: rest => Key.lt a b && sortedKeys (b :: rest)

def bagSorted : List (BKey × Val) → Bool
  | [] => true
  | [_] => true
  | a :: b :: rest => BKey.lt a.1 b.1 && bagSorted (b :: rest)

def ratsIncreasing : List Rat → Bool
  | [] => true
  | [_] => true
  | a :: b :: rest => decide (a < b) && ratsIncreasing (b :: rest)

def valsIncreasing : List Val → Bool
  | [] => true
  | [_] => true
  | a :: b :: rest => Val.lt a b && valsIncreasing (b :: rest)

def Key.isIdx : Key → Bool | .idx _ => true | _ => false
def Key.isCat : Key → Bool | .cat _ => true | _ => false
def Key.isLbl : Key → Bool | .lbl _ => true | _ => false
def Key.isCtr : Key → Bool | .ctr _ => true | _ => false
def Key.isThr : Key → Bool | .thr _ => true | _ => false

/-- The keys of the children are the ones the kind prescribes, in the prescribed order. -/
def Kind.layoutOk (k : Kind) (keys : List Key) : Bool :=
  match k with
  | .bin _ n low high =>
      decide (1 ≤ n) && decide (low < high) &&
      decide (keys = [.under, .over, .nanflow] ++ (List.range n).map Key.pos)
  | .sparse _ width _ _ _ =>
      decide (0 < width) &&
      (match keys with
       | .nanflow :: rest => rest.all Key.isIdx && sortedKeys rest
       | _ => false)
  | .central _ =>
      (match keys with
       | .nanflow :: rest => rest.all Key.isCtr && decide (2 ≤ rest.length) && ratsIncreasing (centersOf rest)
       | _ => false)
  | .irregular _ | .stack _ =>
      (match keys with
       | .nanflow :: .thr .ninf :: rest =>
           rest.all Key.isThr && valsIncreasing (.ninf :: thresholdsOf rest) &&
           (thresholdsOf rest).all Val.isFin
       | _ => false)
  | .fraction _ => decide (keys = [.den, .num])
  | .select _ => decide (keys = [.cut])
  | .categorize .. => keys.all Key.isCat && sortedKeys keys
  | .label => keys.all Key.isLbl && sortedKeys keys && !keys.isEmpty
  | .untypedLabel => keys.all Key.isLbl && sortedKeys keys
  | .index | .branch => decide (keys = (List.range keys.length).map Key.ith) && !keys.isEmpty
  | _ => keys.isEmpty

/-- numeric part of the invariant of the scalar state of a leaf: `entries` is a finite non-negative number; an empty
leaf is in its initial state; a Deviate has a finite variance accumulator exactly when its mean is
finite; Bag keys are strictly sorted. -/
def leafGoodCore (k : Kind) (e : Val) (st : St) : Bool :=
  St.fits k st &&
  (match e with
   | .fin q => decide (0 ≤ q) && (if q = 0 then decide (st = St.zero k) else
       (match st with
        | .dev m v => (m.isFin && v.isFin) || (!m.isFin && v.isNaN)
        | .bag m => bagSorted m
        | _ => true))
   | _ => false)

/-- a Bag key has the shape its range prescribes (what `bagKeyOf` produces): strings for "S", numbers
for "N", vectors of length `n` for "N<n>" -/
def BKey.inRange : BagRange → BKey → Bool
  | .S, .str _ => true
  | .N, .num _ => true
  | .Nn n, .vec l => decide (l.length = n)
  | _, _ => false

def bagKeysOk (r : BagRange) (m : List (BKey × Val)) : Bool := m.all (fun kv => kv.1.inRange r)

/-- Bag keys are in the range of the Bag; vacuous for the other kinds. -/
def leafKeysOk : Kind → St → Bool
  | .bag _ r, .bag m => bagKeysOk r m
  | _, _ => true

/-- invariant of the scalar state of a leaf (`leafGoodCore`) together with well-typed Bag keys -/
def leafGood (k : Kind) (e : Val) (st : St) : Bool := leafGoodCore k e st && leafKeysOk k st

mutual
/-- `t` is an empty tree: what `zero` returns (and what constructors build). -/
def isZeroTree : Agg → Bool
  | .node k e st tmpl kids =>
    e.isZero && decide (st = St.zero k) && isZeroTmpl tmpl && isZeroKids kids
def isZeroTmpl : Option Agg → Bool
  | none => true
  | some t => isZeroTree t
def isZeroKids : List (Key × Agg) → Bool
  | [] => true
  | (_, a) :: rest => isZeroTree a && isZeroKids rest
end

mutual
/-- `sameBase a b`: `b` has the same static structure as `a` — same kind (including quantities and
structural parameters), same template, same child layout (for sparse containers: compatible flows,
and every bin of either side has the static structure of the template) — as two states derived
from one empty tree by `fill`, `+`, `*` have. -/
def sameBase : Agg → Agg → Bool
  | .node k1 _ _ t1 kids1, b =>
    match b with
    | .node k2 _ _ t2 kids2 =>
      decide (k1 = k2) && decide (t1 = t2) &&
      (if k1.isSparse then
         sameBaseFlow kids1 kids2 && sameBaseTmpl t1 kids1 && sameBaseTmpl t1 kids2
       else sameBaseZip kids1 kids2)
def sameBaseZip : List (Key × Agg) → List (Key × Agg) → Bool
  | [], [] => true
  | (k1, a) :: r1, (k2, b) :: r2 => decide (k1 = k2) && sameBase a b && sameBaseZip r1 r2
  | _, _ => false
/-- flows (nanflow) of sparse containers correspond -/
def sameBaseFlow : List (Key × Agg) → List (Key × Agg) → Bool
  | [], _ => true
  | (k1, a) :: r1, kids2 =>
    (if k1 = .nanflow then
       (match lookupK .nanflow kids2 with
        | some b => sameBase a b
        | none => false)
     else true) && sameBaseFlow r1 kids2
/-- every bin has the static structure of the template (nothing to check without a template) -/
def sameBaseTmpl : Option Agg → List (Key × Agg) → Bool
  | none, _ => true
  | some t, kids => sameBaseBins t kids
def sameBaseBins : Agg → List (Key × Agg) → Bool
  | _, [] => true
  | t, (k, a) :: rest => (if k = .nanflow then true else sameBase t a) && sameBaseBins t rest
end

mutual
/-- `good t`: the structural and state invariants every state of the real library satisfies
(checked on every state of the correspondence run). -/
def good : Agg → Bool
  | .node k e st tmpl kids =>
    (if k.isLeaf then leafGood k e st
     else St.fits k st && (match e with | .fin q => decide (0 ≤ q) | _ => false)) &&
    k.layoutOk (keysOf kids) &&
    goodKids kids &&
    goodTmpl tmpl &&
    (if k.isSparse then sameBaseTmpl tmpl kids else true) &&
    (match k, tmpl with
     | .sparse _ _ _ ctype cname, some t => ctype == t.typeName && cname == t.qtyName
     | .categorize _ ctype cname, some t => ctype == t.typeName && cname == t.qtyName
     | _, _ => true)
def goodKids : List (Key × Agg) → Bool
  | [] => true
  | (_, a) :: rest => good a && goodKids rest
def goodTmpl : Option Agg → Bool
  | none => true
  | some t => good t && isZeroTree t
end

/-- a weight that is either gated out (`not w > 0`) or finite -/
def Val.okWeight (w : Val) : Bool := !w.pos || w.isFin

/-- every fill of the stream returns normally and every intermediate state is `good` -/
def goodRun (t : Agg) : List (Datum × Val) → Bool
  | [] => good t
  | dw :: rest => good t && dw.2.okWeight && (fill t dw.1 dw.2).2.isOk && goodRun (fill t dw.1 dw.2).1 rest

/-- Every bin of a sparse container has the static structure of the template. -/
def binsFollowTmpl : Agg → Bool
  | .node k _ _ tmpl kids => if k.isSparse then sameBaseTmpl tmpl kids else true

end Hg
