/-
  Hg.Model.CountT — `Count(transform)`: a Count that accumulates a transformed weight.

  The tree model (`Hg.Model.Agg`) has identity Counts only; this file models the one primitive whose
  accumulated quantity is a user function of the *weight*.  The weight type `W`, the gate `pos`
  (`weight > 0.0`, false for NaN) and the transform `f` are parameters, so every statement proved
  about these definitions holds for every transform.  Values are exact rationals (class E).

  Transcribed from histogrammar/primitives/count.py:
    fill          — `if weight > 0.0: self.entries += self.transform(weight)`
    add           — `out.entries = self.entries + other.entries`
    fillNp        — `_numpy` with a weight array:  `t = transform(weights); entries += t[weights > 0].sum()`
    fillNpScalar  — `_numpy` with a scalar weight and a batch of known length n:
                    `if weights > 0: entries += transform([weights])[0] * n`
-/
namespace Hg.CountT

def fill {W : Type} (pos : W → Bool) (f : W → Rat) (c : Rat) (w : W) : Rat :=
  if pos w then c + f w else c

def fillAll {W : Type} (pos : W → Bool) (f : W → Rat) (c : Rat) (ws : List W) : Rat :=
  ws.foldl (fill pos f) c

def add (a b : Rat) : Rat := a + b

def sumR : List Rat → Rat
  | [] => 0
  | x :: xs => x + sumR xs

def fillNp {W : Type} (pos : W → Bool) (f : W → Rat) (c : Rat) (ws : List W) : Rat :=
  c + sumR ((ws.filter pos).map f)

def fillNpScalar {W : Type} (pos : W → Bool) (f : W → Rat) (c : Rat) (w : W) (n : Nat) : Rat :=
  if pos w then c + f w * (n : Rat) else c

/-- the transforms the driver can be asked for: a polynomial in the weight (Horner form,
coefficients from the constant term up) -/
def poly (cs : List Rat) (w : Rat) : Rat := cs.foldr (fun a acc => a + w * acc) 0

end Hg.CountT
