/-
  Hg.Model.Shape — identity-level models (DESIGN §3.5).

  (1) `Shape`: a tree of object identities with the per-object flag `_checkedForCrossReferences`,
      and `checkCross`, the transcription of `Container._checkForCrossReferences` (defs.py, after the
      repair of finding 15): a top-level call returns at once if the root is already marked;
      otherwise it walks the fillable children (templates excluded by the caller) with an
      identity-keyed memo, raises on the first object met twice, and marks every object whose
      subtree was walked completely.
  (2) `Heap`: objects with mutable payload and child references, for the non-interference lemma of
      C06.
-/
namespace Hg

inductive Shape where
  | node (id : Nat) (checked : Bool) (kids : List Shape)
  deriving Repr, Inhabited

namespace Shape

def id : Shape → Nat | node i _ _ => i
def checked : Shape → Bool | node _ c _ => c

mutual
/-- identities in the order the walk meets them -/
def ids : Shape → List Nat
  | node i _ kids => i :: idsList kids
def idsList : List Shape → List Nat
  | [] => []
  | s :: rest => ids s ++ idsList rest
end

mutual
/-- `_checkForCrossReferences(memo)` called recursively (memo given): returns the tree with the
flags it managed to set, and `some memo'` if it completed, `none` if it raised. -/
def walk : Shape → List Nat → Shape × Option (List Nat)
  | node i c kids, memo =>
    if memo.contains i then (node i c kids, none)
    else
      let r := walkList kids (i :: memo)
      match r.2 with
      | some memo' => (node i true r.1, some memo')
      | none => (node i c r.1, none)
def walkList : List Shape → List Nat → List Shape × Option (List Nat)
  | [], memo => ([], some memo)
  | s :: rest, memo =>
    let r := walk s memo
    match r.2 with
    | some memo' =>
      let rr := walkList rest memo'
      (r.1 :: rr.1, rr.2)
    | none => (r.1 :: rest, none)
end

/-- the call at the top of every `fill` / `fill.numpy`: `(tree with updated flags, raised?)` -/
def checkCross (t : Shape) : Shape × Bool :=
  if t.checked then (t, false)
  else
    let r := walk t []
    (r.1, r.2.isNone)

mutual
def allChecked : Shape → Bool
  | node _ c kids => c && allCheckedList kids
def allCheckedList : List Shape → Bool
  | [] => true
  | s :: rest => allChecked s && allCheckedList rest
end

end Shape

/-! ### heap model for non-interference -/

/-- an object: an opaque payload (its own scalar state) and references to other objects -/
structure Obj where
  payload : Nat
  refs : List Nat
  deriving Repr, DecidableEq, Inhabited

abbrev Heap := Nat → Option Obj

/-- `reach h n r`: the objects reachable from `r` in at most `n` reference steps -/
def reachN (h : Heap) : Nat → Nat → List Nat
  | 0, r => [r]
  | n + 1, r =>
    match h r with
    | none => [r]
    | some o => r :: (o.refs.map (reachN h n)).flatten

/-- what an observer of root `r` can see, to depth `n`: the payloads along every path -/
def viewN (h : Heap) : Nat → Nat → List (Option Nat)
  | 0, r => [(h r).map (·.payload)]
  | n + 1, r =>
    match h r with
    | none => [none]
    | some o => some o.payload :: (o.refs.map (viewN h n)).flatten

/-- a heap update that only writes objects in `ws` -/
def Heap.agreesOutside (h h' : Heap) (ws : List Nat) : Prop := ∀ i, i ∉ ws → h' i = h i

end Hg
