/-
  Hg.Model.Denote — the *specification* of what a tree holds after a stream of `fill` calls (C02),
  written as closed forms over the multiset of (datum, weight) pairs, independently of `fill`:
  no definition below mentions `fill`, `leafFill`, `leafAdd` or `add`.

  * only records with `weight > 0` take part (`gated`);
  * every node's `entries` is the sum of the weights that reached it;
  * Sum: Σ w·x.  Average: Σ w·x / Σ w, NaN as soon as one value is NaN or both infinities occur, the
    infinity itself when only one occurs.  Deviate: that mean, and variance·entries =
    Σ w·x² − (Σ w·x)²/Σ w, NaN as soon as one value is NaN or infinite.  Minimize/Maximize: the extremum
    of the values that are not NaN (NaN if there is none).  Bag: value ↦ Σ w, values in the order
    `toJson` lists them;
  * a container hands every child the sub-multiset `route` sends to it (half-open intervals, nearest
    centre with ties upwards, every threshold at or below the value, category, …) with the routed
    weight; sparse containers hold exactly the bins that received a record, in key order, each
    described by the template applied to its sub-multiset.
-/
import Hg.Model.Ops

namespace Hg

/-- the records that take part in the aggregation -/
def gated (s : List (Datum × Val)) : List (Datum × Val) := s.filter (fun dw => dw.2.pos)

/-- Σ f over a list, from 0 -/
def sumVal {α : Type} (f : α → Val) (l : List α) : Val := l.foldl (fun acc a => acc + f a) 0

def totalW (s : List (Datum × Val)) : Val := sumVal (fun dw => dw.2) s

/-- the values of a quantity on the records of a stream, with their weights (records whose quantity
does not evaluate are left out: they do not occur in a good run) -/
def valuesOf (q : Qty) (s : List (Datum × Val)) : List (Val × Val) :=
  s.filterMap (fun dw => match q.evalNum dw.1 with | .ok x => some (x, dw.2) | .error _ => none)

/-- weighted mean of a non-empty weighted list of values, with the special-value table -/
def specMean (xs : List (Val × Val)) : Val :=
  if xs.isEmpty then .nan
  else if xs.any (fun p => p.1.isNaN) then .nan
  else if xs.any (fun p => p.1 == .pinf) && xs.any (fun p => p.1 == .ninf) then .nan
  else if xs.any (fun p => p.1 == .pinf) then .pinf
  else if xs.any (fun p => p.1 == .ninf) then .ninf
  else sumVal (fun p => p.1 * p.2) xs / sumVal (fun p => p.2) xs

/-- variance · entries -/
def specVte (xs : List (Val × Val)) : Val :=
  if xs.isEmpty then .nan
  else if xs.any (fun p => p.1.isNaN || p.1.isInf) then .nan
  else
    let w := sumVal (fun p => p.2) xs
    let s1 := sumVal (fun p => p.1 * p.2) xs
    let s2 := sumVal (fun p => p.1 * p.1 * p.2) xs
    s2 - s1 * s1 / w

/-- extremum of the values that are not NaN; `better a b` = `a` beats `b` -/
def specExt (better : Val → Val → Bool) (xs : List (Val × Val)) : Val :=
  ((xs.map (·.1)).filter (fun x => !x.isNaN)).foldl (fun acc x => if acc.isNaN || better x acc then x else acc) .nan

/-- the keys of a Bag in the order of the serialisation -/
def sortBKeys (l : List BKey) : List BKey := l.eraseDups.mergeSort (fun a b => !BKey.lt b a)

def specBag (q : Qty) (r : BagRange) (s : List (Datum × Val)) : List (BKey × Val) :=
  let kw : List (BKey × Val) := s.filterMap (fun dw => match q.evalBag r dw.1 with | .ok key => some (key, dw.2) | .error _ => none)
  (sortBKeys (kw.map (·.1))).map (fun key => (key, sumVal (fun p => p.2) (kw.filter (fun p => p.1 = key))))

/-- `(entries, state)` of a leaf that received the gated stream `g` -/
def leafDenote (k : Kind) (g : List (Datum × Val)) : Val × St :=
  match k with
  | .count => (totalW g, .unit)
  | .sum q => (totalW g, .sum (sumVal (fun p => p.1 * p.2) (valuesOf q g)))
  | .average q => (totalW g, .mean (specMean (valuesOf q g)))
  | .deviate q => (totalW g, .dev (specMean (valuesOf q g)) (specVte (valuesOf q g)))
  | .minimize q => (totalW g, .ext (specExt (fun a b => Val.lt a b) (valuesOf q g)))
  | .maximize q => (totalW g, .ext (specExt (fun a b => Val.lt b a) (valuesOf q g)))
  | .bag q r => (totalW g, .bag (specBag q r g))
  | _ => (totalW g, .unit)

/-- the sub-multiset a container of kind `k` with child keys `keys` hands to its child `key`: the records
`route` sends there, with the routed weight -/
def routed (k : Kind) (keys : List Key) (key : Key) (g : List (Datum × Val)) : List (Datum × Val) :=
  g.filterMap (fun dw =>
    match route k keys dw.1 dw.2 with
    | .ok targets => (lookupK key targets).map (fun w' => (dw.1, w'))
    | .error _ => none)

/-- the bins of a sparse container that received at least one record, in key order -/
def touchedKeys (k : Kind) (keys : List Key) (g : List (Datum × Val)) : List Key :=
  let hit : List Key := g.filterMap (fun dw =>
    match route k keys dw.1 dw.2 with
    | .ok [(key, _)] => if key = .nanflow then none else some key
    | _ => none)
  hit.eraseDups.mergeSort (fun a b => !Key.lt b a)

mutual
/-- the aggregate the specification assigns to the empty tree `z` and the stream `s` -/
def denote : Agg → List (Datum × Val) → Agg
  | .node k _ st tmpl kids, s =>
    let g := gated s
    if k.isLeaf then
      let r := leafDenote k g
      .node k r.1 r.2 tmpl kids
    else if k.isSparse then
      .node k (totalW g) st tmpl
        (denoteKids kids k (keysOf kids) g ++ denoteNew tmpl k (keysOf kids) (touchedKeys k (keysOf kids) g) g)
    else
      .node k (totalW g) st tmpl (denoteKids kids k (keysOf kids) g)
/-- the children an empty tree already has (fixed layouts; the nanflow of a SparselyBin) -/
def denoteKids : List (Key × Agg) → Kind → List Key → List (Datum × Val) → List (Key × Agg)
  | [], _, _, _ => []
  | (key, a) :: rest, k, keys, g => (key, denote a (routed k keys key g)) :: denoteKids rest k keys g
/-- the bins a sparse container creates: the template applied to the records of each touched key -/
def denoteNew : Option Agg → Kind → List Key → List Key → List (Datum × Val) → List (Key × Agg)
  | none, _, _, _, _ => []
  | some t, k, keys, new, g => new.map (fun key => (key, denote t (routed k keys key g)))
end

end Hg
