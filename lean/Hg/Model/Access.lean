/-
  Hg.Model.Access — derived views: `num_bins`, `bin_edges`, `bin_centers`, `bin_entries`,
  `bin_width` of Bin, SparselyBin, CentrallyBin and IrregularlyBin, for the full range and for a
  sub-range `(low, high)`, transcribed from the accessor methods with exact arithmetic
  (`np.isclose(high, edge)` is equality; `np.linspace`/`np.arange` are exact grids).
  Query bounds: `none` = not given.
-/
import Hg.Model.Ops

namespace Hg

/-- entries of the regular bins of a node, in order -/
def binEntriesAll (kids : List (Key × Agg)) : List Val :=
  (kids.filter (fun p => match p.1 with | .under | .over | .nanflow => false | _ => true)).map (·.2.entries)

/-! ### Bin -/

/-- `Bin.bin(x)` for `low ≤ x < high` -/
def Bin.idx (n : Nat) (L H x : Rat) : Nat := binIndex n L H x

def Bin.width (n : Nat) (L H : Rat) : Rat := (H - L) / n

/-- first and last regular bin covered by the query `(low, high)`; `none` when the query lies
entirely in the underflow or overflow region -/
def Bin.span (n : Nat) (L H : Rat) (low high : Option Rat) : Option (Nat × Nat) :=
  let under := match low, high with | some l, some h => decide (l < L) && decide (h < L) | _, _ => false
  let over := match low, high with | some l, some h => decide (H ≤ l) && decide (H ≤ h) | _, _ => false
  if under || over then none
  else
    let minBin := match low with
      | none => 0
      | some l => if l < L then 0 else Bin.idx n L H l
    let maxBin := match high with
      | none => n - 1
      | some h =>
        if H ≤ h then n - 1
        else
          let b := Bin.idx n L H h
          -- a bound exactly on an edge belongs to the bin below
          if h = L + Bin.width n L H * b then b - 1 else b
    some (minBin, maxBin)

def Bin.numBins (n : Nat) (L H : Rat) (low high : Option Rat) : Nat :=
  match Bin.span n L H low high with
  | none => 0
  | some (a, b) => b + 1 - a

def Bin.edges (n : Nat) (L H : Rat) (low high : Option Rat) : List Rat :=
  match Bin.span n L H low high with
  | none => []
  | some (a, b) => (List.range (b + 2 - a)).map (fun i => L + Bin.width n L H * ((a + i : Nat) : Rat))

def Bin.centers (n : Nat) (L H : Rat) (low high : Option Rat) : List Rat :=
  match Bin.span n L H low high with
  | none => []
  | some (a, b) => (List.range (b + 1 - a)).map (fun i => L + Bin.width n L H * (((a + i : Nat) : Rat) + 1 / 2))

def Bin.entriesIn (n : Nat) (L H : Rat) (kids : List (Key × Agg)) (low high : Option Rat) : List Val :=
  match Bin.span n L H low high with
  | none => []
  | some (a, b) => ((binEntriesAll kids).drop a).take (b + 1 - a)

/-- `bin_entries(xvalues=[x])`: the content of the bin `fill` routes `x` to, 0 outside the range -/
def Bin.entryAt (n : Nat) (L H : Rat) (kids : List (Key × Agg)) (x : Rat) : Val :=
  match routeBin n L H (.fin x) with
  | .pos i => ((binEntriesAll kids)[i]?).getD 0
  | _ => 0

/-! ### SparselyBin -/

def sparseKeys (kids : List (Key × Agg)) : List Int :=
  kids.filterMap (fun p => match p.1 with | .idx i => some i | _ => none)

def Sparse.idx (width origin x : Rat) : Int := ((x - origin) / width).floor

/-- `_bin_range`: (minBin, maxBin) of the query; the filled range when a bound is not given -/
def Sparse.span (width origin : Rat) (kids : List (Key × Agg)) (low high : Option Rat) : Option (Int × Int) :=
  match sparseKeys kids with
  | [] => none
  | k :: ks =>
    let mn := ks.foldl min k
    let mx := ks.foldl max k
    let a := match low with | none => mn | some l => Sparse.idx width origin l
    let b := match high with
      | none => mx
      | some h =>
        let i := Sparse.idx width origin h
        if h = origin + width * i then i - 1 else i
    some (a, b)

def Sparse.numBins (width origin : Rat) (kids : List (Key × Agg)) (low high : Option Rat) : Int :=
  match Sparse.span width origin kids low high with
  | none => 0
  | some (a, b) => b + 1 - a

def Sparse.edges (width origin : Rat) (kids : List (Key × Agg)) (low high : Option Rat) : List Rat :=
  match Sparse.span width origin kids low high with
  | none => [origin]
  | some (a, b) => (List.range (b + 2 - a).toNat).map (fun (i : Nat) => origin + width * ((a + (i : Int) : Int) : Rat))

def Sparse.entriesIn (width origin : Rat) (kids : List (Key × Agg)) (low high : Option Rat) : List Val :=
  match Sparse.span width origin kids low high with
  | none => []
  | some (a, b) => (List.range (b + 1 - a).toNat).map (fun (i : Nat) =>
      match lookupK (.idx (a + (i : Int))) kids with
      | some c => c.entries
      | none => 0)

def Sparse.entryAt (width origin : Rat) (kids : List (Key × Agg)) (x : Rat) : Val :=
  match lookupK (sparseIndex width origin (.fin x)) kids with
  | some c => c.entries
  | none => 0

/-! ### CentrallyBin / IrregularlyBin -/

/-- `CentrallyBin.index(x, greater)`: position of the bin of `x`; with `greater = false` a value on a
midpoint belongs to the lower bin -/
def Central.index (greater : Bool) (x : Val) : List Rat → Nat
  | [] => 0
  | [_] => 0
  | c :: c' :: rest =>
    let mid : Val := .fin ((c + c') / 2)
    if (if greater then Val.lt x mid else Val.le x mid) then 0 else 1 + Central.index greater x (c' :: rest)

def Central.span (cs : List Rat) (low high : Option Rat) : Nat × Nat :=
  (Central.index true (match low with | some l => .fin l | none => .ninf) cs,
   Central.index false (match high with | some h => .fin h | none => .pinf) cs)

def Central.centersIn (cs : List Rat) (low high : Option Rat) : List Rat :=
  let s := Central.span cs low high
  (cs.drop s.1).take (s.2 + 1 - s.1)

def Central.entriesIn (kids : List (Key × Agg)) (cs : List Rat) (low high : Option Rat) : List Val :=
  let s := Central.span cs low high
  ((binEntriesAll kids).drop s.1).take (s.2 + 1 - s.1)

/-- `IrregularlyBin._lower_index(x)`: `max(0, bisect_right(edges, x) - 1)` -/
def Irregular.lowerIndex (x : Val) (ts : List Val) : Nat :=
  (ts.filter (fun t => Val.le t x)).length - 1

/-- `_upper_index(x)`: a bound exactly on an edge belongs to the bin below -/
def Irregular.upperIndex (x : Val) (ts : List Val) : Nat :=
  match ts.findIdx? (fun t => t = x) with
  | some i => i - 1
  | none => Irregular.lowerIndex x ts

def Irregular.entriesIn (kids : List (Key × Agg)) (ts : List Val) (low high : Option Rat) : List Val :=
  let a := Irregular.lowerIndex (match low with | some l => .fin l | none => .ninf) ts
  let b := Irregular.upperIndex (match high with | some h => .fin h | none => .pinf) ts
  ((binEntriesAll kids).drop a).take (b + 1 - a)

def Irregular.entryAt (kids : List (Key × Agg)) (ts : List Val) (x : Rat) : Val :=
  ((binEntriesAll kids)[Irregular.lowerIndex (.fin x) ts]?).getD 0

end Hg
