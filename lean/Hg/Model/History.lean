/-
  Hg.Model.History — operation histories over a pool of aggregators derived from one empty tree
  (C05: the bookkeeping invariants hold in every reachable state, not just after fills).
  The pool starts as `[z]`; `fill`, `fill.numpy` and `+=` update a slot in place, `+`, `*`, `zero()`, `copy()`
  append their result.  Operations on slots that do not exist are no-ops; a `fill.numpy` that raises
  (`fillNp = none`) leaves the pool as it is (such a step is not admissible: `okStep`).
-/
import Hg.Model.Spec
import Hg.Model.WF
import Hg.Model.Live
import Hg.Model.Np
import Hg.Model.NpHyp

namespace Hg

inductive HOp where
  | fill (i : Nat) (d : Datum) (w : Val)
  | fillnp (i : Nat) (rows : List Datum) (ws : List Val)
  | add (i j : Nat)
  | iadd (i j : Nat)
  | mul (i : Nat) (f : Val)
  | zero (i : Nat)
  | copy (i : Nat)
  deriving Repr

def stepH (pool : List Agg) : HOp → List Agg
  | .fill i d w =>
    match pool[i]? with
    | some a => pool.set i (fill a d w).1
    | none => pool
  | .fillnp i rows ws =>
    match pool[i]? with
    | some a => (match fillNp a rows ws with | some a' => pool.set i a' | none => pool)
    | none => pool
  | .add i j =>
    match pool[i]?, pool[j]? with
    | some a, some b => (match add a b with | some c => pool ++ [c] | none => pool)
    | _, _ => pool
  | .iadd i j =>
    match pool[i]?, pool[j]? with
    | some a, some b => pool.set i (iadd a b).1
    | _, _ => pool
  | .mul i f =>
    match pool[i]? with
    | some a => pool ++ [mul a f]
    | none => pool
  | .zero i =>
    match pool[i]? with
    | some a => pool ++ [zero a]
    | none => pool
  | .copy i =>
    match pool[i]? with
    | some a => (match copy a with | some c => pool ++ [c] | none => pool)
    | none => pool

def runH (z : Agg) (ops : List HOp) : List Agg := ops.foldl stepH [z]

/-- a step the properties quantify over: a fill does not raise and has a finite (or gated) weight — evaluated on the
state it is applied to —, a vectorised fill satisfies the executable hypotheses of C03 `fillNp_eq_rows` on the state
it is applied to (one weight per row, no negative weight, the row-wise run is good, no NaN reaches a Sum, every
quantity evaluates on every record of the batch), a scaling factor is finite or does not pass the gate -/
def okStep (pool : List Agg) : HOp → Bool
  | .fill i d w =>
    match pool[i]? with
    | some a => w.okWeight && (fill a d w).2.isOk
    | none => true
  | .fillnp i rows ws =>
    match pool[i]? with
    | some a => decide (rows.length = ws.length) && nonNegW ws && goodRun a (rows.zip ws) && noNanForSums a rows &&
        qtysOk a rows
    | none => true
  | .mul _ f => !f.pos || f.isFin
  | _ => true

/-- every step of the history is admissible in the state it is applied to -/
def okRun : List Agg → List HOp → Bool
  | _, [] => true
  | pool, op :: rest => okStep pool op && okRun (stepH pool op) rest

end Hg
