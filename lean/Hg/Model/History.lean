/-
  Hg.Model.History — operation histories over a pool of aggregators derived from one empty tree
  (C05: the bookkeeping invariants hold in every reachable state, not just after fills).
  The pool starts as `[z]`; `fill` and `+=` update a slot in place, `+`, `*`, `zero()`, `copy()` append
  their result.  Operations on slots that do not exist are no-ops.
-/
import Hg.Model.Spec

namespace Hg

inductive HOp where
  | fill (i : Nat) (d : Datum) (w : Val)
  | add (i j : Nat)
  | iadd (i j : Nat)
  | mul (i : Nat) (f : Val)
  | zero (i : Nat)
  | copy (i : Nat)
  deriving Repr

def stepH (pool : List Agg) : HOp → List Agg
  | .fill i d w =>
    match pool[i]? with
    | some a => pool.set i (fill a d w).1
    | none => pool
  | .add i j =>
    match pool[i]?, pool[j]? with
    | some a, some b => (match add a b with | some c => pool ++ [c] | none => pool)
    | _, _ => pool
  | .iadd i j =>
    match pool[i]?, pool[j]? with
    | some a, some b => pool.set i (iadd a b).1
    | _, _ => pool
  | .mul i f =>
    match pool[i]? with
    | some a => pool ++ [mul a f]
    | none => pool
  | .zero i =>
    match pool[i]? with
    | some a => pool ++ [zero a]
    | none => pool
  | .copy i =>
    match pool[i]? with
    | some a => (match copy a with | some c => pool ++ [c] | none => pool)
    | none => pool

def runH (z : Agg) (ops : List HOp) : List Agg := ops.foldl stepH [z]

/-- a step the properties quantify over: a fill does not raise and has a finite (or gated) weight — evaluated on the
state it is applied to —, a scaling factor is finite or does not pass the gate -/
def okStep (pool : List Agg) : HOp → Bool
  | .fill i d w =>
    match pool[i]? with
    | some a => w.okWeight && (fill a d w).2.isOk
    | none => true
  | .mul _ f => !f.pos || f.isFin
  | _ => true

/-- every step of the history is admissible in the state it is applied to -/
def okRun : List Agg → List HOp → Bool
  | _, [] => true
  | pool, op :: rest => okStep pool op && okRun (stepH pool op) rest

end Hg
