/-
  Hg.Model.Spec — specification-level definitions the property theorems are stated with:
  content normal form (C09), structural mismatch (C10), single-path trees and surviving records
  (C12), bookkeeping invariants (C05), the code-order model of `+=` (C07/C10).
  All executable (Bool / computable) except the inductive `Mismatch`.
-/
import Hg.Model.Immut
import Hg.Model.Live

namespace Hg

/-! ### C09: content -/

/-- the part of a quantity `==` looks at -/
def Qty.content (q : Qty) : Qty := ⟨0, q.name, q.live⟩

/-- the part of the static parameters `==` looks at (`Select` ignores its quantity; the number of
bins of a `Bin` is implied by its children; `bins:name` of a sparse container is not compared) -/
def Kind.content : Kind → Kind
  | .select _ => .select ⟨0, none, false⟩
  | .bin q _ l h => .bin q.content 0 l h
  | .sparse q w o c _ => .sparse q.content w o c none
  | .categorize q c _ => .categorize q.content c none
  | k => k.mapQty Qty.content

/-- `Deviate` is compared through its variance -/
def St.content (e : Val) : St → St
  | .dev m v => .dev m (varianceOf e v)
  | s => s

mutual
/-- Normal form of what `==` (at zero tolerance) compares: two aggregators are equal iff their
contents are syntactically equal (`eqv_iff_content`). Templates are compared only on sparse
containers. -/
def content : Agg → Agg
  | .node k e st tmpl kids =>
    .node k.content e (St.content e st) (if k.isSparse then contentOpt tmpl else none) (contentKids kids)
def contentOpt : Option Agg → Option Agg
  | none => none
  | some t => some (content t)
def contentKids : List (Key × Agg) → List (Key × Agg)
  | [] => []
  | (key, a) :: rest => (key, content a) :: contentKids rest
end

mutual
/-- a sparse container has a template exactly when its quantity can still be called (it is live, not
reloaded from JSON) — an invariant of every state of the library -/
def liveOk : Agg → Bool
  | .node k _ _ tmpl kids =>
    (match k with
     | .sparse q .. => tmpl.isSome == q.live
     | .categorize q .. => tmpl.isSome == q.live
     | _ => true) && liveOkOpt tmpl && liveOkKids kids
def liveOkOpt : Option Agg → Bool
  | none => true
  | some t => liveOk t
def liveOkKids : List (Key × Agg) → Bool
  | [] => true
  | (_, a) :: rest => liveOk a && liveOkKids rest
end

/-! ### C10: structural mismatch -/

/-- `Mismatch a b`: somewhere in the two trees — at the root, at corresponding children of a
fixed-layout container, at a bin or flow key both sparse containers hold, or in their templates —
the primitive type or a structural parameter differs, or two fixed layouts have different child
keys. -/
inductive Mismatch : Agg → Agg → Prop
  | here (a b : Agg) : a.kind.sameShape b.kind = false → Mismatch a b
  | layout (a b : Agg) : a.kind.isSparse = false → keysOf a.kids ≠ keysOf b.kids → Mismatch a b
  | child (a b : Agg) (i : Nat) (x y : Key × Agg) :
      a.kind.isSparse = false → a.kids[i]? = some x → b.kids[i]? = some y → Mismatch x.2 y.2 → Mismatch a b
  | shared (a b : Agg) (key : Key) (x y : Agg) :
      a.kind.isSparse = true → lookupK key a.kids = some x → lookupK key b.kids = some y →
      Mismatch x y → Mismatch a b
  | tmpl (a b : Agg) (x y : Agg) :
      a.kind.isSparse = true → a.tmpl = some x → b.tmpl = some y → Mismatch x y → Mismatch a b

/-! ### C12: single-path trees, surviving records -/

mutual
/-- trees in which one datum follows a single path: Bin, SparselyBin, CentrallyBin, IrregularlyBin,
Categorize, Select nested arbitrarily over any leaf (templates and flows included) -/
def singlePath : Agg → Bool
  | .node k _ _ tmpl kids =>
    (match k with
     | .stack _ | .fraction _ | .label | .untypedLabel | .index | .branch => false
     | _ => true) && singlePathOpt tmpl && singlePathKids kids
def singlePathOpt : Option Agg → Bool
  | none => true
  | some t => singlePath t
def singlePathKids : List (Key × Agg) → Bool
  | [] => true
  | (_, a) :: rest => singlePath a && singlePathKids rest
end

/-- the records of a stream whose fill did not raise (evaluated along the run) -/
def survivors (t : Agg) : List (Datum × Val) → List (Datum × Val)
  | [] => []
  | dw :: rest =>
    let r := fill t dw.1 dw.2
    if r.2.isOk then dw :: survivors r.1 rest else survivors r.1 rest

/-- every fill of the stream returns normally -/
def fillsOk (t : Agg) : List (Datum × Val) → Bool
  | [] => true
  | dw :: rest => (fill t dw.1 dw.2).2.isOk && fillsOk (fill t dw.1 dw.2).1 rest

/-! ### C05: bookkeeping invariants -/

/-- sum of the `entries` of a list of children -/
def sumEntries : List (Key × Agg) → Val
  | [] => 0
  | (_, a) :: rest => a.entries + sumEntries rest

/-- entries of the levels of a Stack are non-increasing -/
def antitoneEntries : List (Key × Agg) → Bool
  | [] => true
  | [_] => true
  | a :: b :: rest => Val.le b.2.entries a.2.entries && antitoneEntries (b :: rest)

def bagTotal : List (BKey × Val) → Val
  | [] => 0
  | kv :: rest => kv.2 + bagTotal rest

mutual
/-- C05: `entries` is a non-negative number; for the partitioning containers (Bin, SparselyBin,
CentrallyBin, IrregularlyBin, Categorize) the entries of all bins and flows sum to the node's
entries; every member of a collection and the denominator of a Fraction have the parent's entries;
Stack levels are non-increasing and level 0 plus nanflow equals entries; Bag weights sum to
entries. -/
def inv : Agg → Bool
  | .node k e st _ kids =>
    Val.le 0 e &&
    (match k, st with
     | .bin .., _ | .sparse .., _ | .central _, _ | .irregular _, _ | .categorize .., _ =>
         decide (sumEntries kids = e)
     | .label, _ | .untypedLabel, _ | .index, _ | .branch, _ =>
         kids.all (fun p => decide (p.2.entries = e))
     | .fraction _, _ =>
         (match lookupK .den kids with
          | some d => decide (d.entries = e)
          | none => false)
     | .stack _, _ =>
         antitoneEntries (binsOf kids) &&
         (match binsOf kids, lookupK .nanflow kids with
          | l0 :: _, some nf => decide (l0.2.entries + nf.entries = e)
          | _, _ => false)
     | .bag _ _, .bag m => decide (bagTotal m = e)
     | _, _ => true) &&
    invKids kids
def invKids : List (Key × Agg) → Bool
  | [] => true
  | (_, a) :: rest => inv a && invKids rest
end

/-! ### C07 / C10: `+=` in the code's order of effects -/

mutual
/-- `a += b` as the container `__iadd__` methods perform it: the root checks its own parameters,
adds `entries`, then merges child by child *in place*; a mismatch found below the root therefore
raises after part of `a` has already been updated (DESIGN §9, finding 3).  Leaves and sparse
content checks follow the code (`Average/Deviate/Minimize/Maximize/Bag` go through `+`). -/
def iaddCode : Agg → Agg → Agg × Bool
  | .node k1 e1 s1 t1 kids1, b =>
    match b with
    | .node k2 e2 s2 t2 kids2 =>
      if !(k1.sameShape k2) then (.node k1 e1 s1 t1 kids1, false)
      else if k1.isLeaf then
        let r := leafAdd k1 e1 s1 e2 s2
        (.node k1 r.1 r.2 t1 kids1, true)
      else if k1.isSparse then
        -- `_checkContentCompatible` runs before anything is changed
        if !(match (match t2 with | some t => some t | none => firstBin kids2) with
             | none => true
             | some th => match t1 with
               | some m => compat m th
               | none => compatFirstC kids1 th) then (.node k1 e1 s1 t1 kids1, false)
        else
          let r := iaddUnion kids1 kids2
          (.node k1 (e1 + e2) s1 t1 r.1, r.2)
      else if keysOf kids1 != keysOf kids2 then
        (.node k1 e1 s1 t1 kids1, false)
      else
        let r := iaddZip kids1 kids2
        (.node k1 (e1 + e2) s1 t1 r.1, r.2)
def iaddZip : List (Key × Agg) → List (Key × Agg) → List (Key × Agg) × Bool
  | [], _ => ([], true)
  | (k1, a) :: r1, [] => ((k1, a) :: r1, true)
  | (k1, a) :: r1, (_, b) :: r2 =>
    let ra := iaddCode a b
    if ra.2 then
      let rr := iaddZip r1 r2
      ((k1, ra.1) :: rr.1, rr.2)
    else ((k1, ra.1) :: r1, false)
/-- sparse children: bins present on both sides are merged in place, the others are copied over -/
def iaddUnion : List (Key × Agg) → List (Key × Agg) → List (Key × Agg) × Bool
  | [], ys => (ys, true)
  | (k1, a) :: r1, ys =>
    let lo := ys.takeWhile (fun p => Key.lt p.1 k1)
    let rest := ys.dropWhile (fun p => Key.lt p.1 k1)
    match rest with
    | [] => (lo ++ (k1, a) :: r1, true)
    | (k2, b) :: rest' =>
      if k2 = k1 then
        let ra := iaddCode a b
        if ra.2 then
          let rr := iaddUnion r1 rest'
          (lo ++ (k1, ra.1) :: rr.1, rr.2)
        else (lo ++ (k1, ra.1) :: r1, false)
      else
        let rr := iaddUnion r1 rest
        (lo ++ (k1, a) :: rr.1, rr.2)
/-- `compat (firstBin kids) th` (same as `compatFirst`, repeated here to stay structural) -/
def compatFirstC : List (Key × Agg) → Agg → Bool
  | [], _ => true
  | (key, a) :: rest, th => if key = .nanflow then compatFirstC rest th else compat a th
end

end Hg
