/-
  Hg.Model.Agg — data: records, quantities, keys, kinds, leaf state, the aggregator tree.

  One nested inductive rose tree models all 19 primitives (DESIGN §3.3).  `Kind` holds the static
  parameters of a node, `entries`/`St` its scalar state, `tmpl` the never-filled sub-aggregator
  template of SparselyBin/Categorize/CentrallyBin (absent after a JSON reload), `kids` the
  sub-aggregators keyed by their position.
-/
import Hg.Model.Val

namespace Hg

/-- One column of one record, as a user quantity function sees it. -/
inductive Cell where
  | num (v : Val)
  | bool (b : Bool)
  | str (s : String)
  | vec (l : List Val)      -- vector-valued quantity (Bag range "N#")
  | none                    -- Python `None`
  | raises                  -- the quantity function raises (fault injection, C12)
  | wrongType               -- the quantity function returns a non-number, non-string object
  deriving DecidableEq, Repr, Inhabited

/-- One record = its columns. -/
abbrev Datum := List Cell

/-- A user quantity: a column selector with an optional name.  `live = false` is the quantity of a
container reloaded from JSON or built by `ed` (`expr = None`): calling it raises `TypeError`. -/
structure Qty where
  col : Nat
  name : Option String
  live : Bool
  deriving DecidableEq, Repr, Inhabited

/-- What a raising `fill` raised, as far as the line protocol distinguishes it. -/
inductive Fault where
  | typeErr      -- TypeError / AttributeError: wrong return type, immutable container, missing template
  | userExc      -- the exception raised by the quantity function itself
  | container    -- ContainerException
  deriving DecidableEq, Repr, Inhabited

inductive Outcome where
  | ok
  | raised (f : Fault)
  deriving DecidableEq, Repr, Inhabited

def Outcome.isOk : Outcome → Bool
  | .ok => true
  | _ => false

/-- Position of a sub-aggregator inside its parent. -/
inductive Key where
  | under | over | nanflow
  | pos (i : Nat)            -- Bin.values[i]
  | idx (i : Int)            -- SparselyBin.bins[i]
  | ctr (c : Rat)            -- CentrallyBin centre
  | thr (t : Val)            -- IrregularlyBin / Stack threshold (the first one is -inf)
  | cat (s : String)         -- Categorize.bins[s]
  | lbl (s : String)         -- Label / UntypedLabel
  | ith (i : Nat)            -- Index / Branch
  | den | num                -- Fraction (denominator is filled first)
  | cut                      -- Select
  deriving DecidableEq, Repr, Inhabited

/-- Strict order on keys, used to keep the children of sparse containers sorted: flows first, then
by index / category.  Only `idx`/`cat`/`nanflow` ever meet in one list. -/
def Key.lt : Key → Key → Bool
  | .nanflow, .nanflow => false
  | .nanflow, _ => true
  | _, .nanflow => false
  | .idx i, .idx j => decide (i < j)
  | .cat s, .cat t => decide (s < t)
  | .lbl s, .lbl t => decide (s < t)
  | .pos i, .pos j => decide (i < j)
  | .ith i, .ith j => decide (i < j)
  | _, _ => false

inductive BagRange where
  | S | N | Nn (n : Nat)
  deriving DecidableEq, Repr, Inhabited

/-- Key of a Bag entry (`nan` stands for the string key "nan" the code substitutes for NaN). -/
inductive BKey where
  | num (v : Val)
  | str (s : String)
  | vec (l : List Val)
  deriving DecidableEq, Repr, Inhabited

def vecLt : List Val → List Val → Bool
  | [], _ => false
  | _ :: _, [] => false
  | a :: as, b :: bs => if Val.keyLt a b then true else if Val.keyLt b a then false else vecLt as bs

/-- Order in which `Bag.toJsonFragment` lists the values. -/
def BKey.lt : BKey → BKey → Bool
  | .num a, .num b => Val.keyLt a b
  | .str a, .str b => decide (a < b)
  | .vec a, .vec b => vecLt a b
  | _, _ => false

/-- Static parameters of a node. `ctype`/`cname` are `contentType` and the name of the bins'
quantity of a sparse container (what `bins:type` / `bins:name` serialise when no bin exists). -/
inductive Kind where
  | count
  | sum (q : Qty)
  | average (q : Qty)
  | deviate (q : Qty)
  | minimize (q : Qty)
  | maximize (q : Qty)
  | bag (q : Qty) (r : BagRange)
  | bin (q : Qty) (n : Nat) (low high : Rat)
  | sparse (q : Qty) (width origin : Rat) (ctype : String) (cname : Option String)
  | central (q : Qty)
  | irregular (q : Qty)
  | stack (q : Qty)
  | fraction (q : Qty)
  | select (q : Qty)
  | categorize (q : Qty) (ctype : String) (cname : Option String)
  | label
  | untypedLabel
  | index
  | branch
  deriving DecidableEq, Repr, Inhabited

/-- Scalar state of a node besides `entries`. -/
inductive St where
  | unit
  | sum (s : Val)
  | mean (m : Val)
  | dev (m vte : Val)             -- mean, varianceTimesEntries
  | ext (x : Val)                 -- min or max
  | bag (m : List (BKey × Val))   -- sorted by `BKey.lt`
  deriving DecidableEq, Repr, Inhabited

inductive Agg where
  | node (k : Kind) (entries : Val) (st : St) (tmpl : Option Agg) (kids : List (Key × Agg))
  deriving Repr, Inhabited

namespace Kind

def isLeaf : Kind → Bool
  | count | sum _ | average _ | deviate _ | minimize _ | maximize _ | bag _ _ => true
  | _ => false

/-- Kinds whose bins are created on demand from the template. -/
def isSparse : Kind → Bool
  | sparse .. | categorize .. => true
  | _ => false

/-- Collections fan every datum out to every child. -/
def isCollection : Kind → Bool
  | label | untypedLabel | index | branch => true
  | _ => false

/-- The registered factory name (`Container.name`). -/
def typeName : Kind → String
  | count => "Count" | sum _ => "Sum" | average _ => "Average" | deviate _ => "Deviate"
  | minimize _ => "Minimize" | maximize _ => "Maximize" | bag .. => "Bag" | bin .. => "Bin"
  | sparse .. => "SparselyBin" | central _ => "CentrallyBin" | irregular _ => "IrregularlyBin"
  | stack _ => "Stack" | fraction _ => "Fraction" | select _ => "Select"
  | categorize .. => "Categorize" | label => "Label" | untypedLabel => "UntypedLabel"
  | index => "Index" | branch => "Branch"

def qty? : Kind → Option Qty
  | sum q | average q | deviate q | minimize q | maximize q | bag q _ | bin q .. | sparse q ..
  | central q | irregular q | stack q | fraction q | select q | categorize q .. => some q
  | _ => none

/-- Replace the quantity (used by `immut` and by name propagation on reload). -/
def mapQty (f : Qty → Qty) : Kind → Kind
  | sum q => sum (f q) | average q => average (f q) | deviate q => deviate (f q)
  | minimize q => minimize (f q) | maximize q => maximize (f q) | bag q r => bag (f q) r
  | bin q n l h => bin (f q) n l h | sparse q w o c n => sparse (f q) w o c n
  | central q => central (f q) | irregular q => irregular (f q) | stack q => stack (f q)
  | fraction q => fraction (f q) | select q => select (f q) | categorize q c n => categorize (f q) c n
  | k => k

end Kind

namespace Agg

def kind : Agg → Kind | node k _ _ _ _ => k
def entries : Agg → Val | node _ e _ _ _ => e
def st : Agg → St | node _ _ s _ _ => s
def tmpl : Agg → Option Agg | node _ _ _ t _ => t
def kids : Agg → List (Key × Agg) | node _ _ _ _ ks => ks

def typeName (a : Agg) : String := a.kind.typeName
def qtyName (a : Agg) : Option String := (a.kind.qty?).bind (·.name)

end Agg

/-! ### decidable equality (the deriving handler does not cover nested inductives) -/

mutual
def Agg.beq : Agg → Agg → Bool
  | .node k1 e1 s1 t1 ks1, .node k2 e2 s2 t2 ks2 =>
    decide (k1 = k2) && decide (e1 = e2) && decide (s1 = s2) && Agg.beqOpt t1 t2 && Agg.beqKids ks1 ks2
def Agg.beqOpt : Option Agg → Option Agg → Bool
  | none, none => true
  | some a, some b => Agg.beq a b
  | _, _ => false
def Agg.beqKids : List (Key × Agg) → List (Key × Agg) → Bool
  | [], [] => true
  | (k1, a) :: r1, (k2, b) :: r2 => decide (k1 = k2) && Agg.beq a b && Agg.beqKids r1 r2
  | _, _ => false
end

mutual
theorem Agg.beq_iff : ∀ (a b : Agg), Agg.beq a b = true ↔ a = b
  | .node k1 e1 s1 t1 ks1, .node k2 e2 s2 t2 ks2 => by
    simp only [Agg.beq, Bool.and_eq_true, decide_eq_true_eq, Agg.beqOpt_iff t1 t2, Agg.beqKids_iff ks1 ks2,
      Agg.node.injEq]
    simp only [and_assoc]
theorem Agg.beqOpt_iff : ∀ (a b : Option Agg), Agg.beqOpt a b = true ↔ a = b
  | none, none => by simp [Agg.beqOpt]
  | some a, some b => by simp [Agg.beqOpt, Agg.beq_iff a b]
  | none, some _ => by simp [Agg.beqOpt]
  | some _, none => by simp [Agg.beqOpt]
theorem Agg.beqKids_iff : ∀ (a b : List (Key × Agg)), Agg.beqKids a b = true ↔ a = b
  | [], [] => by simp [Agg.beqKids]
  | (k1, a) :: r1, (k2, b) :: r2 => by
    simp only [Agg.beqKids, Bool.and_eq_true, decide_eq_true_eq, Agg.beq_iff a b, Agg.beqKids_iff r1 r2,
      List.cons.injEq, Prod.mk.injEq]
  | [], _ :: _ => by simp [Agg.beqKids]
  | _ :: _, [] => by simp [Agg.beqKids]
end

instance : DecidableEq Agg := fun a b => decidable_of_iff _ (Agg.beq_iff a b)

/-- Association-list lookup by key. -/
def lookupK {α : Type} (k : Key) : List (Key × α) → Option α
  | [] => none
  | (k', a) :: rest => if k' = k then some a else lookupK k rest

def keysOf {α : Type} (l : List (Key × α)) : List Key := l.map (·.1)

end Hg
