/-
  Hg.Model.Val — the number domain of the model.

  Extended rationals with IEEE-style special values.  Finite arithmetic is exact (`Rat`); the
  special values follow Python float semantics (`inf - inf = nan`, `0 * inf = nan`, every
  comparison with `nan` is false, `nan` is absorbing).  Rounding of binary64 is the declared gap
  between this domain and the implementation (DESIGN §3.1, §7).

  Import-free (core only) so that the driver can run the same definitions.
-/
namespace Hg

inductive Val where
  | fin (q : Rat)
  | pinf
  | ninf
  | nan
  deriving DecidableEq, Repr, Inhabited

namespace Val

instance : OfNat Val n := ⟨fin (n : Nat)⟩

def zero : Val := fin 0
def one : Val := fin 1

def isNaN : Val → Bool
  | nan => true
  | _ => false

def isInf : Val → Bool
  | pinf => true
  | ninf => true
  | _ => false

def isFin : Val → Bool
  | fin _ => true
  | _ => false

/-- IEEE addition on the extended domain. -/
def add : Val → Val → Val
  | nan, _ => nan
  | _, nan => nan
  | pinf, ninf => nan
  | ninf, pinf => nan
  | pinf, _ => pinf
  | _, pinf => pinf
  | ninf, _ => ninf
  | _, ninf => ninf
  | fin a, fin b => fin (a + b)

def neg : Val → Val
  | nan => nan
  | pinf => ninf
  | ninf => pinf
  | fin a => fin (-a)

def sub (a b : Val) : Val := add a (neg b)

/-- `±inf * q` for a finite `q`: `nan` at zero, sign rule otherwise. -/
def infTimes (positive : Bool) (q : Rat) : Val :=
  if q = 0 then nan
  else if (decide (0 < q)) = positive then pinf else ninf

/-- IEEE multiplication on the extended domain. -/
def mul : Val → Val → Val
  | nan, _ => nan
  | _, nan => nan
  | fin a, fin b => fin (a * b)
  | pinf, fin b => infTimes true b
  | ninf, fin b => infTimes false b
  | fin a, pinf => infTimes true a
  | fin a, ninf => infTimes false a
  | pinf, pinf => pinf
  | ninf, ninf => pinf
  | pinf, ninf => ninf
  | ninf, pinf => ninf

/-- Division.  A finite numerator over a zero denominator is where Python raises
`ZeroDivisionError`; the model only divides by a positive `entries` (a proved side condition of
every use), and this branch returns `nan` so that a wrong use would be visible. -/
def div : Val → Val → Val
  | nan, _ => nan
  | _, nan => nan
  | fin a, fin b => if b = 0 then nan else fin (a / b)
  | fin _, pinf => fin 0
  | fin _, ninf => fin 0
  | pinf, fin b => if b = 0 then nan else if 0 < b then pinf else ninf
  | ninf, fin b => if b = 0 then nan else if 0 < b then ninf else pinf
  | _, _ => nan

/-- `a < b` as Python evaluates it on floats (false whenever a `nan` is involved). -/
def lt : Val → Val → Bool
  | nan, _ => false
  | _, nan => false
  | fin a, fin b => decide (a < b)
  | ninf, ninf => false
  | ninf, _ => true
  | _, ninf => false
  | pinf, _ => false
  | _, pinf => true

/-- `a <= b` (false whenever a `nan` is involved). -/
def le : Val → Val → Bool
  | nan, _ => false
  | _, nan => false
  | fin a, fin b => decide (a ≤ b)
  | ninf, _ => true
  | _, pinf => true
  | _, ninf => false
  | pinf, _ => false

def gt (a b : Val) : Bool := lt b a
def ge (a b : Val) : Bool := le b a

/-- The weight gate `weight > 0.0` of every `fill`. -/
def pos (w : Val) : Bool := lt (fin 0) w

/-- `x == 0.0` -/
def isZero : Val → Bool
  | fin q => decide (q = 0)
  | _ => false

def abs : Val → Val
  | fin q => fin (if q < 0 then -q else q)
  | nan => nan
  | _ => pinf

def max (a b : Val) : Val := if lt a b then b else a

/-- `histogrammar.util.numeq` with tolerances `(rel, tol)`; with both zero it is equality with
`nan == nan`. -/
def numeq (rel tol : Rat) (x y : Val) : Bool :=
  if x.isNaN && y.isNaN then true
  else if x.isInf && y.isInf then decide (x = y)
  else
    match x, y with
    | fin a, fin b =>
      let d : Rat := if a - b < 0 then b - a else a - b
      let aa : Rat := if a < 0 then -a else a
      let ab : Rat := if b < 0 then -b else b
      let m : Rat := if aa < ab then ab else aa
      if 0 < rel && 0 < tol then decide (d ≤ (if rel * m < tol then tol else rel * m))
      else if 0 < rel then decide (d ≤ rel * m)
      else if 0 < tol then decide (d ≤ tol)
      else decide (a = b)
    | nan, _ => false
    | _, nan => false
    -- exactly one side infinite: `abs(x - y)` is `inf`, which is `<= rel * inf` iff a relative
    -- tolerance is set (as coded in `numeq`; an absolute tolerance alone compares `inf <= tol`)
    | _, _ => decide (0 < rel)

/-- `util.minplus`: minimum with `nan` as the neutral element. -/
def minplus (x y : Val) : Val :=
  if x.isNaN && y.isNaN then nan
  else if x.isNaN then y
  else if y.isNaN || lt x y then x
  else y

/-- `util.maxplus`: maximum with `nan` as the neutral element. -/
def maxplus (x y : Val) : Val :=
  if x.isNaN && y.isNaN then nan
  else if x.isNaN then y
  else if y.isNaN || lt y x then x
  else y

instance : Add Val := ⟨add⟩
instance : Mul Val := ⟨mul⟩
instance : Sub Val := ⟨sub⟩
instance : Div Val := ⟨div⟩
instance : Neg Val := ⟨neg⟩

/-- Total order used only to keep Bag keys sorted the way `Bag.toJsonFragment` sorts them:
numbers ascending (`-inf` first, `inf` last), `nan` after everything. -/
def keyLt : Val → Val → Bool
  | nan, _ => false
  | _, nan => true
  | a, b => lt a b

end Val
end Hg
