/-
  Hg.Model.Live — two more executable hypotheses of the fill/merge theorems.

  `hasTmpl t`: every sparse container (SparselyBin / Categorize) in `t` — through children and
  templates — still has its sub-aggregator template, and no template holds bins, i.e. `t` is a live
  tree built by constructors, not one reloaded from JSON.  `noBins t`: sparse containers hold no bins (only flows), as in a
  freshly constructed or `zero()`-ed tree.
-/
import Hg.Model.WF

namespace Hg

mutual
def noBins : Agg → Bool
  | .node k _ _ _ kids => (if k.isSparse then kids.all (fun p => p.1 = .nanflow) else true) && noBinsKids kids
def noBinsKids : List (Key × Agg) → Bool
  | [] => true
  | (_, a) :: rest => noBins a && noBinsKids rest
end

mutual
def hasTmpl : Agg → Bool
  | .node k _ _ tmpl kids => (if k.isSparse then tmpl.isSome else true) && hasTmplOpt tmpl && hasTmplKids kids
def hasTmplOpt : Option Agg → Bool
  | none => true
  | some t => hasTmpl t && noBins t
def hasTmplKids : List (Key × Agg) → Bool
  | [] => true
  | (_, a) :: rest => hasTmpl a && hasTmplKids rest
end

end Hg
