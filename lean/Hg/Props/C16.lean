/-
  Hg.Props.C16 — one aggregator placed at two positions of a tree is detected, not double-filled.
  `Shape` is the tree of object identities the cross-reference walk sees (children minus the
  never-filled templates); `checkCross` transcribes `Container._checkForCrossReferences`.
-/
import Hg.Proofs.ShapeLaws

namespace Hg.C16
open Hg.Shape

/-- A tree whose root is not yet marked and in which some object occurs at two fillable positions
(siblings, cousins under different parents, a node and its own descendant: any duplicate in the
walk order) is rejected … -/
theorem shared_rejected (t : Shape) (hc : t.checked = false) (hd : ¬ (ids t).Nodup) :
    (checkCross t).2 = true :=
  Hg.shared_rejected t hc hd

/-- … on the first fill and on every later one: the raising check leaves the root unmarked and the
identities unchanged, so it raises again. -/
theorem shared_rejected_again (t : Shape) (hc : t.checked = false) (hd : ¬ (ids t).Nodup) :
    (checkCross t).1.checked = false ∧ ¬ (ids (checkCross t).1).Nodup ∧ (checkCross (checkCross t).1).2 = true :=
  Hg.shared_rejected_again t hc hd

/-- Trees without shared nodes are never rejected, whatever flags earlier walks left behind. -/
theorem linear_accepted (t : Shape) (hn : (ids t).Nodup) :
    (checkCross t).2 = false ∧ (t.checked = false → allChecked (checkCross t).1 = true) :=
  Hg.linear_accepted t hn

/-- the walk completes iff the subtree's identities are pairwise distinct and not yet in the memo -/
theorem walk_some_iff (t : Shape) (memo : List Nat) :
    (walk t memo).2.isSome = true ↔ (ids t).Nodup ∧ ∀ i ∈ ids t, i ∉ memo :=
  Hg.walk_some_iff t memo

/-! non-vacuity: `Label(a=c, b=c)` (object 7 twice) is rejected although `c` was already marked by an
earlier fill of its own; two distinct children are accepted -/
example : (checkCross (.node 1 false [.node 7 true [], .node 7 true []])).2 = true := by decide
example : (checkCross (.node 1 false [.node 7 true [], .node 8 false []])).2 = false := by decide
example : ¬ (ids (.node 1 false [.node 7 true [], .node 7 true []])).Nodup := by decide

end Hg.C16
