/-
  Hg.Props.C14 — the dataframe interface: `make_histograms` builds, for every feature, the nested tree
  its bin specifications describe (`mkTree` over the axes `axesOf` resolves: n-dim entry, `{}` reverting
  to the 1-dim setting of the variable, unit default; booleans are categories) and fills it with one
  vectorised call with unit weights (`makeHist`).  `directHist` is the same tree filled record by
  record.  What pandas computes (automatic binning from quantiles, timestamp conversion) enters as the
  `bin_specs` / integer columns the real run returns; it is compared on every run, not modelled.
-/
import Hg.Proofs.FrameLaws

namespace Hg.C14

/-- the tree of a feature is a well-formed empty tree: every theorem about fills from an empty tree
(C01, C02, C03, C05, C12) applies to it -/
theorem mkTree_wf (axes : List (Nat × AxisSpec)) (hv : axesValid axes = true) :
    isZeroTree (mkTree axes) = true ∧ good (mkTree axes) = true ∧ hasTmpl (mkTree axes) = true ∧
    noBins (mkTree axes) = true ∧ singlePath (mkTree axes) = true :=
  Hg.mkTree_wf axes hv

/-- **entries = number of rows** -/
theorem make_entries (axes : List (Nat × AxisSpec)) (rows : List Datum) (h : Agg)
    (hf : fillNp (mkTree axes) rows (unitWeights rows) = some h) :
    h.entries = .fin (rows.length : Rat) :=
  Hg.make_entries axes rows h hf

/-- **content = the same tree filled directly**, and the vectorised fill does not raise, for every frame
whose columns have the declared types (`qtysOk`) -/
theorem make_eq_direct (bs : BinSpecs) (feature : List Column) (rows : List Datum) (axes : List (Nat × AxisSpec))
    (ha : axesOf bs feature = some axes) (hv : axesValid axes = true) (hq : qtysOk (mkTree axes) rows = true) :
    (makeHist bs feature rows).isSome = true ∧
    (makeHist bs feature rows).map prune = (directHist bs feature rows).map prune :=
  Hg.make_eq_direct bs feature rows axes ha hv hq

/-- **chunks add up**: for every partition of the rows into chunks (any number, any sizes, empty ones
included) and every order and bracketing `σ` of the `+` that combines the per-chunk histograms made with
the same features / bin_specs / var_dtype, the sum is the histogram of the whole frame (up to
zero-weight sparse bins, which `prune` removes) -/
theorem chunks_add_up (bs : BinSpecs) (feature : List Column) (chunks : List (List Datum)) (σ : Sched)
    (axes : List (Nat × AxisSpec)) (ha : axesOf bs feature = some axes) (hv : axesValid axes = true)
    (hq : ∀ c ∈ chunks, qtysOk (mkTree axes) c = true) (hσ : σ.leaves.Perm (List.range chunks.length)) :
    ∃ parts whole, chunks.mapM (makeHist bs feature) = some parts ∧
      makeHist bs feature chunks.flatten = some whole ∧
      (reduce parts σ).map prune = some (prune whole) :=
  Hg.chunks_add_up bs feature chunks σ axes ha hv hq hσ

/-- the record-by-record fill of such a frame never raises and keeps every intermediate state well formed -/
theorem mkTree_goodRun (axes : List (Nat × AxisSpec)) (hv : axesValid axes = true) (rows : List Datum)
    (hq : qtysOk (mkTree axes) rows = true) :
    goodRun (mkTree axes) (rows.zip (unitWeights rows)) = true :=
  Hg.mkTree_goodRun axes hv rows hq

/-! ### resolution of the bin specifications (`var_bin_specs`), stated outright -/

/-- a boolean column is a category axis whatever the specifications say -/
theorem resolve_bool (bs : BinSpecs) (feature : List Column) (i : Nat) (c : Column)
    (hc : feature[i]? = some c) (hb : c.ty = .bool) : resolve bs feature i = some .categorize := by
  simp [resolve, hc, hb]

/-- an n-dim entry that is given (not `{}`) is used -/
theorem resolve_nd (bs : BinSpecs) (feature : List Column) (i : Nat) (c : Column) (l : List (Option AxisSpec)) (s : AxisSpec)
    (hc : feature[i]? = some c) (hb : c.ty ≠ .bool) (hn : feature.length > 1)
    (hl : bs.many.lookup (featureName feature) = some l) (hlen : l.length = feature.length) (hs : l[i]? = some (some s)) :
    resolve bs feature i = some s := by
  simp [resolve, hc, hb, hn, hl, hlen, hs]

/-- an n-dim entry `{}` reverts to the 1-dim setting of the variable (or the unit default) -/
theorem resolve_empty (bs : BinSpecs) (feature : List Column) (i : Nat) (c : Column) (l : List (Option AxisSpec))
    (hc : feature[i]? = some c) (hb : c.ty ≠ .bool) (hn : feature.length > 1)
    (hl : bs.many.lookup (featureName feature) = some l) (hlen : l.length = feature.length) (hs : l[i]? = some none) :
    resolve bs feature i = some (oneDimSpec bs c) := by
  simp [resolve, hc, hb, hn, hl, hlen, hs]

/-- without an n-dim entry the 1-dim setting of the variable (or the unit default) is used -/
theorem resolve_one (bs : BinSpecs) (feature : List Column) (i : Nat) (c : Column)
    (hc : feature[i]? = some c) (hb : c.ty ≠ .bool) (hl : bs.many.lookup (featureName feature) = none) :
    resolve bs feature i = some (oneDimSpec bs c) := by
  simp [resolve, hc, hb, hl]

/-! non-vacuity: the feature `x:b` with specs {x: sparse(1/2, 0), "x:b": [{}, {}]} on three rows split 2+1 -/
namespace Ex
def bs : BinSpecs := ⟨[("x", .sparse (1/2) 0)], [("x:b", [none, none])]⟩
def feat : List Column := [⟨"x", 0, .num⟩, ⟨"b", 1, .bool⟩]
def r1 : List Datum := [[.num (.fin (3/4)), .str "True"], [.num .nan, .str "False"]]
def r2 : List Datum := [[.num (.fin (-1/4)), .str "True"]]
end Ex
open Ex in
example : axesOf bs feat = some [(0, .sparse (1/2) 0), (1, .categorize)] := by decide +kernel
open Ex in
example : axesValid [(0, .sparse (1/2) 0), (1, .categorize)] = true := by decide +kernel
open Ex in
#guard qtysOk (mkTree [(0, .sparse (1/2) 0), (1, .categorize)]) (r1 ++ r2)
open Ex in
#guard ((makeHist bs feat r1).bind (fun a => (makeHist bs feat r2).bind (fun b => add a b))).map prune
        == (makeHist bs feat (r1 ++ r2)).map prune
open Ex in
#guard ((makeHist bs feat (r1 ++ r2)).map (·.entries)) == some (.fin 3)

end Hg.C14
