/-
  Hg.Props.C11 — pickling preserves content, equality and fillability: the part a model can carry.

  `pickle.dumps/loads` is a CPython runtime mechanism outside any executable model of the library
  logic; whether the clone really has identical content and is a fresh object is decided by the
  differential exploration of the harness on the real library.  What follows from that premise is
  proved here: a clone with identical content compares equal, and stays identical under identical
  continuations, because `fill`, `fillAll`, `fillNp` and `add` are functions of the content
  (no hidden state), and disjoint object graphs do not interfere (C06).
-/
import Hg.Proofs.EqvLaws
import Hg.Model.Np

namespace Hg.C11

/-- a clone with identical content compares equal to the original -/
theorem clone_eqv (t c : Agg) (h : c = t) (hl : liveOk t = true) : eqv 0 0 c t = true := by
  subst h; exact Hg.eqv_refl c hl

/-- … and stays identical under identical row-wise continuations -/
theorem clone_continuation (t c : Agg) (s : List (Datum × Val)) (h : c = t) : fillAll c s = fillAll t s := by
  subst h; rfl

/-- … under identical vectorised continuations -/
theorem clone_continuation_np (t c : Agg) (rows : List Datum) (ws : List Val) (h : c = t) :
    fillNp c rows ws = fillNp t rows ws := by
  subst h; rfl

/-- … and under merges -/
theorem clone_add (t c b : Agg) (h : c = t) : add c b = add t b ∧ add b c = add b t := by
  subst h; exact ⟨rfl, rfl⟩

end Hg.C11
