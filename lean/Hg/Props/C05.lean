/-
  Hg.Props.C05 — bookkeeping invariants are preserved by every operation.
  `inv` (Hg.Model.Spec): entries ≥ 0; bins + flows of Bin / SparselyBin / CentrallyBin /
  IrregularlyBin / Categorize sum to entries; members of collections and the Fraction denominator
  carry the parent's entries; Stack levels are non-increasing with level 0 + nanflow = entries; Bag
  weights sum to entries.  Exact arithmetic; the floating-point clause of the property (values within
  a few ulps of an edge) is decided by the harness's edge probes on the real code.
-/
import Hg.Proofs.FillLaws
import Hg.Proofs.HistoryLaws
import Hg.Proofs.CodecLaws
import Hg.Proofs.InvImmut
import Hg.Proofs.InvNp
import Hg.Proofs.HistoryReload
import Hg.Props.Examples

namespace Hg.C05

theorem inv_zero (t : Agg) (hg : good t = true) : inv (zero t) = true := Hg.inv_zero t hg

/-- one fill keeps the invariants: the datum lands in exactly one bin of a partitioning container
(`route` returns one target with the full weight) and `entries` grows by the same amount -/
theorem inv_fill (t : Agg) (d : Datum) (w : Val) (hg : good t = true) (hi : inv t = true)
    (hw : w.okWeight = true) (hg' : good (fill t d w).1 = true) (hok : (fill t d w).2 = .ok) :
    inv (fill t d w).1 = true :=
  Hg.inv_fill t d w hg hi hw hg' hok

theorem inv_add (a b : Agg) (ha : good a = true) (hb : good b = true)
    (hta : hasTmpl a = true) (htb : hasTmpl b = true) (h : sameBase a b = true)
    (hia : inv a = true) (hib : inv b = true) : inv (addRaw a b) = true :=
  Hg.inv_addRaw a b ha hb hta htb h hia hib

theorem inv_scale (t : Agg) (f : Val) (hg : good t = true) (hi : inv t = true) (hf : f.posFin) :
    inv (scale t f) = true :=
  Hg.inv_scale t f hg hi hf

/-- every state reachable from an empty tree by any run of fills satisfies the invariants -/
theorem inv_fillAll (z : Agg) (s : List (Datum × Val)) (hz : isZeroTree z = true)
    (hrun : goodRun z s = true) : inv (fillAll z s) = true :=
  Hg.inv_fillAll z s hz hrun

/-- **every reachable state**: after any history of fill / fill.numpy / + / += / * / zero() / copy() over a pool of
aggregators derived from one empty live tree (Hg.Model.History), every aggregator of the pool satisfies the invariants,
is well-formed and has the static structure of the empty tree.  `okRun`: every fill has a finite or gated weight and does
not raise, every vectorised fill (`HOp.fillnp`, the model `fillNp` of `fill.numpy`) satisfies the executable hypotheses
of C03 `fillNp_eq_rows` on the state it is applied to (one weight per row, no negative weight, the row-wise run of the
batch is good, no NaN reaches a Sum, every quantity evaluates on every record of the batch), every scaling factor is
finite or gated; `goodFills`: every row-wise fill lands in a `good` state — needed because a
Select / Fraction whose quantity is +inf hands an infinite weight to its child without raising
(`Hg.Hist.Counter.needs_goodFills` is the kernel-checked counterexample to the statement without it). -/
theorem inv_history (z : Agg) (ops : List HOp)
    (hz : isZeroTree z = true) (hg : good z = true) (ht : hasTmpl z = true) (hn : noBins z = true)
    (hok : okRun [z] ops = true) (hgf : goodFills [z] ops = true) :
    ∀ a ∈ runH z ops, inv a = true ∧ good a = true ∧ sameBase z a = true :=
  Hg.inv_history z ops hz hg ht hn hok hgf

/-- the same with live templates in the conclusion -/
theorem inv_history_tmpl (z : Agg) (ops : List HOp)
    (hz : isZeroTree z = true) (hg : good z = true) (ht : hasTmpl z = true)
    (hok : okRun [z] ops = true) (hgf : goodFills [z] ops = true) :
    ∀ a ∈ runH z ops, inv a = true ∧ good a = true ∧ sameBase z a = true ∧ hasTmpl a = true :=
  Hg.inv_history_tmpl z ops hz hg ht hok hgf

/-- **vectorised fill**: under the hypotheses of C03 `fillNp_eq_rows`, `fill.numpy` on a state that satisfies the
invariants returns a state that satisfies them (the zero-weight bins a vectorised fill may create are copies of the
template with zero entries: `Zrel_inv`) -/
theorem inv_fillNp (t : Agg) (rows : List Datum) (ws : List Val)
    (hlen : rows.length = ws.length) (hw : nonNegW ws = true)
    (hrun : goodRun t (rows.zip ws) = true) (ht : hasTmpl t = true) (hs : noNanForSums t rows = true)
    (hq : qtysOk t rows = true) (hi : inv t = true) :
    ∃ a, fillNp t rows ws = some a ∧ inv a = true :=
  Hg.inv_fillNp t rows ws hlen hw hrun ht hs hq hi

/-- **histories continue after a JSON round trip**: after any admissible live history `ops1` the whole pool is reloaded
from its documents (`immut`, which is what `decode ∘ encode` yields: C04 `history_roundtrip`); any history `ops2` of
`+`, `+=`, `*`, `zero()`, `copy()` on the reloaded pool (a reloaded aggregator cannot be filled) again leaves every
aggregator with the invariants, well-formed — the reloaded pool behaves exactly like the live one -/
theorem history_reload (z : Agg) (ops1 ops2 : List HOp)
    (hz : isZeroTree z = true) (hg : good z = true) (ht : hasTmpl z = true) (hu : uniformT z = true)
    (hok : okRun [z] ops1 = true) (hgf : goodFills [z] ops1 = true)
    (hnf : ops2.all HOp.noFill = true) (hok2 : okRun ((runH z ops1).map immut) ops2 = true) :
    ∀ a ∈ ops2.foldl stepH ((runH z ops1).map immut), inv a = true ∧ good a = true :=
  Hg.history_reload z ops1 ops2 hz hg ht hu hok hgf hnf hok2

/-- **JSON round trip**: the aggregator loaded from the document of a state that satisfies the invariants
satisfies them too (and is well-formed); `inv_immut`: the invariants do not depend on whether the quantities are live -/
theorem inv_reload (t : Agg) (hg : good t = true) (hu : uniform t = true) (hk : knownCtype t = true)
    (hi : inv t = true) :
    ∃ r, decode (encode t) = some r ∧ inv r = true ∧ good r = true :=
  ⟨immut t, Hg.decode_encode t hg hu hk, by rw [Hg.inv_immut]; exact hi, (Hg.good_immut t hg hu).1⟩

theorem inv_immut (t : Agg) : inv (immut t) = inv t := Hg.inv_immut t

/-- routing of a Bin puts every non-NaN value in exactly one of under / over / a regular bin whose
index is below `n` (the index is clamped to the last bin, mirroring the repaired code) -/
theorem binIndex_lt (n : Nat) (low high x : Rat) (hn : 0 < n) : binIndex n low high x < n := by
  simp only [binIndex]
  have := Nat.min_le_right ((↑n * (x - low) / (high - low)).floor.toNat) (n - 1)
  omega

open Hg.Ex in
example : isZeroTree z = true := by decide +kernel
open Hg.Ex in
#guard goodRun z (s1 ++ s2) && inv (fillAll z (s1 ++ s2))
open Hg.Ex in
#guard (let rows := (s1 ++ s2).map (·.1); let ws := (s1 ++ s2).map (·.2);
  nonNegW ws && goodRun z (rows.zip ws) && noNanForSums z rows && qtysOk z rows && (fillNp z rows ws).any inv)
/- non-vacuity of `inv_history` with vectorised fills: row-wise fills, a `fill.numpy` of the batch `s2`, a copy, a
`fill.numpy` of the batch `s1` into the copy, `+=` — the history is admissible, the vectorised fills return a state
(they change their slot) and every member of the final pool satisfies the conclusion -/
open Hg.Ex in
#guard (let ops : List HOp := [.fill 0 [.num (.fin (1/2)), .num (.fin 3)] 1, .fillnp 0 (s2.map (·.1)) (s2.map (·.2)),
    .copy 0, .fillnp 1 (s1.map (·.1)) (s1.map (·.2)), .iadd 0 1, .mul 0 (.fin 2),
    .fillnp 2 ((s1 ++ s2).map (·.1)) ((s1 ++ s2).map (·.2))];
  okRun [z] ops && goodFills [z] ops && (runH z ops).length == 3 &&
  (runH z ops).all (fun a => inv a && good a && sameBase z a && hasTmpl a) &&
  runH z (ops.take 2) != runH z (ops.take 1) && runH z (ops.take 4) != runH z (ops.take 3) &&
  runH z ops != runH z (ops.take 6))
open Hg.Ex in
#guard (let t := fillAll z (s1 ++ s2); good t && uniform t && knownCtype t && inv t && (decode (encode t)).any inv)

end Hg.C05
