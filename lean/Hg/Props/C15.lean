/-
  Hg.Props.C15 — malformed or foreign JSON is rejected, never loaded as a corrupted aggregator.

  Two ties to /repo: (1) `Hg.Generated.schema` is regenerated from the source of every
  `fromJsonFragment` on each run (harness/extract.py) and `schema_matches` compares it with the table
  the model's decoder is proved to enforce — an edited key list in /repo breaks this obligation;
  (2) the correspondence run loads every single-point mutation of generated documents on model and
  implementation.
-/
import Hg.Proofs.DecodeLaws
import Hg.Proofs.CodecLaws
import Hg.Proofs.DecodeSound
import Hg.Generated.Schema

namespace Hg.C15

/-- the key sets found in /repo's source are the ones the model enforces -/
theorem schema_matches : Hg.Generated.schema = Hg.modelSchema := by decide

/-- every record the decoder accepts passes the key gate of its schema row: a missing key or an extra
key is rejected, for every primitive at every depth -/
theorem decode_keys_gate (fuel : Nat) (ty : String) (m : List (String × Json)) (pn : Option String) (t : Agg)
    (h : decodeFrag (fuel + 1) ty (.obj m) pn = some t) (hty : ty ≠ "Count") :
    ∃ req opt, schemaOf ty = some (req, opt) ∧ Json.hasKeys m req opt = true :=
  Hg.decode_keys_gate fuel ty m pn t h hty

theorem hasKeys_spec (m : List (String × Json)) (req opt : List String) :
    Json.hasKeys m req opt = true ↔
      (∀ k ∈ req, k ∈ Json.keys m) ∧ (∀ k ∈ Json.keys m, k ∈ req ∨ k ∈ opt) :=
  Hg.hasKeys_spec m req opt

/-- negative `entries` is rejected and the loaded container carries exactly the document's entries -/
theorem decode_entries (fuel : Nat) (ty : String) (m : List (String × Json)) (pn : Option String) (t : Agg)
    (h : decodeFrag (fuel + 1) ty (.obj m) pn = some t) (hty : ty ≠ "Count") :
    ∃ e, (Json.get? "entries" m).bind Json.toVal? = some e ∧ Val.lt e 0 = false ∧ t.entries = e :=
  Hg.decode_entries fuel ty m pn t h hty

theorem decode_count (fuel : Nat) (x : Json) (pn : Option String) (t : Agg)
    (h : decodeFrag (fuel + 1) "Count" x pn = some t) :
    ∃ e, Json.toVal? x = some e ∧ Val.lt e 0 = false ∧ t = .node .count e .unit none [] :=
  Hg.decode_count fuel x pn t h

/-- a Bag document that lists the same value twice is rejected: the loaded Bag has pairwise distinct values -/
theorem decode_bag_nodup (fuel : Nat) (m : List (String × Json)) (pn : Option String) (t : Agg)
    (h : decodeFrag (fuel + 1) "Bag" (.obj m) pn = some t) :
    ∃ q r vals, t.kind = .bag q r ∧ t.st = .bag vals ∧ (vals.map (·.1)).Nodup :=
  Hg.decode_bag_nodup fuel m pn t h

/-- a SparselyBin document in which two keys denote the same bin index ("1" and "01") is rejected: the bins of a loaded
SparselyBin have pairwise distinct indices -/
theorem decode_sparse_nodup (fuel : Nat) (m : List (String × Json)) (pn : Option String) (t : Agg)
    (h : decodeFrag (fuel + 1) "SparselyBin" (.obj m) pn = some t) :
    ((keysOf t.kids).filter (fun k => k != .nanflow)).Nodup :=
  Hg.decode_sparse_nodup fuel m pn t h

/-- whatever is accepted is an immutable aggregator of known content types (for EVERY document, valid or not) -/
theorem decode_immut_fixed (j : Json) (t : Agg) (h : decode j = some t) : immut t = t := Hg.decode_immut_fixed j t h

theorem decode_knownCtype (j : Json) (t : Agg) (h : decode j = some t) : knownCtype t = true :=
  Hg.decode_knownCtype j t h

/-- an accepted document whose aggregator is well-formed and uniform is a fixed point of the round trip: serialising
what was loaded and loading it again gives the same aggregator (`Hg.DecodeSound.Counter` holds the checked
counterexamples without the two hypotheses: a Deviate with infinite `entries`, children whose own `name` disagrees
with the name key of their parent — the regions of the open findings C15-empty-leaf-statistics and
C15-optional-name-key) -/
theorem decode_stable_of_good (j : Json) (t : Agg) (h : decode j = some t)
    (hg : good t = true) (hu : uniform t = true) : decode (encode t) = some t :=
  Hg.decode_stable_of_good j t h hg hu

/-- an unknown primitive name is rejected at every level -/
theorem decode_unknown_type (fuel : Nat) (ty : String) (j : Json) (pn : Option String)
    (h : isKnownType ty = false) : decodeFrag fuel ty j pn = none :=
  Hg.decode_unknown_type fuel ty j pn h

/-- the header: exactly type / data / version, a compatible version string, a registered type, and the
loaded container has the named type -/
theorem decode_header_gate (j : Json) (t : Agg) (h : decode j = some t) :
    ∃ m, j = .obj m ∧ Json.hasKeys m ["type", "data", "version"] [] = true ∧
      (∃ v, Json.get? "version" m = some (.str v) ∧ versionOk v = true) ∧
      (∃ ty, Json.get? "type" m = some (.str ty) ∧ isKnownType ty = true ∧ t.typeName = ty) :=
  Hg.decode_header_gate j t h

/-- every document produced by `toJson` is accepted (and loads as the immutable form of its source) -/
theorem decode_complete (t : Agg) (hg : good t = true) (hu : uniform t = true) (hk : knownCtype t = true) :
    decode (encode t) = some (immut t) :=
  Hg.decode_encode t hg hu hk

/-! non-vacuity: a concrete rejection and a concrete acceptance (`decode` goes through `String.split`,
which the kernel does not unfold, hence `#guard`) -/
#guard (decode (.obj [("type", .str "Count"), ("data", .num (-1)), ("version", .str "1.1")])).isNone
#guard decide (decode (.obj [("type", .str "Count"), ("data", .num 3), ("version", .str "1.1")]) =
    some (.node .count 3 .unit none []))
#guard (decode (.obj [("type", .str "Count"), ("data", .num 3), ("version", .str "1.1"), ("extra", .num 1)])).isNone

end Hg.C15
