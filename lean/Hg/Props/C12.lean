/-
  Hg.Props.C12 — a fill that raises leaves the aggregator as if the record had been skipped.
  `fill` (Hg.Model.Ops) follows the code's order of effects (validate, fill the child, then
  increment; a new sparse bin is kept only once its first fill succeeded), so the theorem is
  sensitive to exactly the ordering the property is about.  `singlePath`: Bin, SparselyBin,
  CentrallyBin, IrregularlyBin, Categorize, Select nested arbitrarily over any leaf.
-/
import Hg.Proofs.FillLaws
import Hg.Props.Examples

namespace Hg.C12

/-- If `fill` raises — a quantity raises or returns a value of the wrong type, at any depth — the
node owning that function, its whole subtree and every ancestor are exactly as before. -/
theorem fill_fault_rollback (t : Agg) (d : Datum) (w : Val) (hs : singlePath t = true) (hg : good t = true)
    (hr : (fill t d w).2 ≠ .ok) : (fill t d w).1 = t :=
  Hg.fill_fault_rollback t d w hs hg hr

/-- `try: h.fill(d) except: continue` over a whole stream yields exactly the aggregate of the records
that did not fail -/
theorem skip_on_fault (t : Agg) (s : List (Datum × Val)) (hs : singlePath t = true) (hg : good t = true) :
    fillAll t s = fillAll t (survivors t s) ∧ fillsOk t (survivors t s) = true :=
  Hg.skip_on_fault t s hs hg

/-! non-vacuity: a sparse profile `SparselyBin(Average)`; the second record's averaged quantity raises -/
open Hg.Ex in
example : singlePath sp = true := by decide +kernel
open Hg.Ex in
#guard good sp && decide ((fill sp [.num (.fin 3), .raises] 1).2 ≠ .ok) && decide ((fill sp [.num (.fin 3), .raises] 1).1 = sp)

end Hg.C12
