/-
  Hg.Props.C09 — equality is exactly equality of aggregated content.
  `content` (Hg.Model.Spec) is the normal form of what `==` looks at: primitive type, structural
  parameters, quantity names where the code compares them, and all numeric state with NaN = NaN.
  `liveOk`: a sparse container has a template exactly when its quantity is live (checked on every
  state of the correspondence run).
-/
import Hg.Proofs.EqvLaws
import Hg.Props.Examples

namespace Hg.C09

/-- With zero tolerances, `a == b` holds **iff** the contents of `a` and `b` are identical: any
difference in any bin, at any depth, or in the number of bins or thresholds makes them unequal. -/
theorem eqv_iff_content (a b : Agg) (ha : liveOk a = true) (hb : liveOk b = true) :
    eqv 0 0 a b = true ↔ content a = content b :=
  Hg.eqv_iff_content a b ha hb

theorem eqv_refl (a : Agg) (ha : liveOk a = true) : eqv 0 0 a a = true := Hg.eqv_refl a ha

/-- `==` is symmetric (and `!=` is its negation by definition) -/
theorem eqv_symm (a b : Agg) (ha : liveOk a = true) (hb : liveOk b = true) :
    eqv 0 0 a b = eqv 0 0 b a :=
  Hg.eqv_symm a b ha hb

theorem eqv_trans (a b c : Agg) (ha : liveOk a = true) (hb : liveOk b = true) (hc : liveOk c = true)
    (h1 : eqv 0 0 a b = true) (h2 : eqv 0 0 b c = true) : eqv 0 0 a c = true :=
  Hg.eqv_trans a b c ha hb hc h1 h2

/-- positive tolerances only widen the comparison -/
theorem eqv_mono_tol (rel tol : Rat) (hr : 0 ≤ rel) (ht : 0 ≤ tol) (a b : Agg)
    (h : eqv 0 0 a b = true) : eqv rel tol a b = true :=
  Hg.eqv_mono_tol rel tol hr ht a b h

/-- an aggregator equals its `copy()` -/
theorem eqv_copy (a c : Agg) (ha : good a = true) (hl : liveOk a = true) (hc : copy a = some c) :
    eqv 0 0 a c = true :=
  Hg.eqv_copy a c ha hl hc

/-- single-difference detection: a different `entries` anywhere at the root … -/
theorem eqv_false_of_entries (a b : Agg) (ha : liveOk a = true) (hb : liveOk b = true)
    (h : a.entries ≠ b.entries) : eqv 0 0 a b = false :=
  Hg.eqv_false_of_entries a b ha hb h

/-- … one extra trailing bin / threshold / member … -/
theorem eqv_false_of_kids_length (a b : Agg) (ha : liveOk a = true) (hb : liveOk b = true)
    (h : a.kids.length ≠ b.kids.length) : eqv 0 0 a b = false :=
  Hg.eqv_false_of_kids_length a b ha hb h

/-- … and equality descends into every child: a difference in one nested child is a difference -/
theorem eqv_child (a b : Agg) (i : Nat) (x y : Key × Agg)
    (h : eqv 0 0 a b = true) (hx : a.kids[i]? = some x) (hy : b.kids[i]? = some y) :
    Key.eqv 0 0 x.1 y.1 = true ∧ eqv 0 0 x.2 y.2 = true :=
  Hg.eqv_child a b i x y h hx hy

/-! non-vacuity: the example tree is `liveOk`; two different fills of it are unequal, equal ones equal -/
open Hg.Ex in
example : liveOk z = true ∧ liveOk (fillAll z s1) = true := by decide +kernel
open Hg.Ex in
example : eqv 0 0 (fillAll z s1) (fillAll z s1) = true ∧ eqv 0 0 (fillAll z s1) (fillAll z s2) = false := by
  decide +kernel

end Hg.C09
