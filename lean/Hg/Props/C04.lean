/-
  Hg.Props.C04 — JSON serialisation is lossless, strict, and yields a fully usable container.
  `encode`/`decode` (Hg.Model.Codec) transcribe every toJsonFragment / fromJsonFragment / ed;
  `immut` (Hg.Model.Immut) is the immutable form a reload yields.  Hypotheses: `good`, `uniform`
  (bins of one container share type and name — what the format can express), `knownCtype`
  (contentType of sparse containers names a registered factory; free on live trees).
-/
import Hg.Proofs.CodecLaws
import Hg.Proofs.HistoryRoundTrip
import Hg.Props.Examples

namespace Hg.C04

/-- `Factory.fromJson(h.toJson())` succeeds and returns exactly the immutable form of `h`: same
content, names, parameters and nested types; nothing dropped or defaulted. -/
theorem decode_encode (t : Agg) (hg : good t = true) (hu : uniform t = true) (hk : knownCtype t = true) :
    decode (encode t) = some (immut t) :=
  Hg.decode_encode t hg hu hk

/-- for live trees the last hypothesis is free -/
theorem decode_encode_live (t : Agg) (hg : good t = true) (hu : uniform t = true) (ht : hasTmpl t = true) :
    decode (encode t) = some (immut t) :=
  Hg.decode_encode_live t hg hu ht

/-- the reload re-serialises to the identical document -/
theorem encode_immut (t : Agg) (hg : good t = true) (hu : uniform t = true) : encode (immut t) = encode t :=
  Hg.encode_immut t hg hu

/-- strictness: the document contains no `null` and, by construction of `Json.num`, no non-finite
number (those are written as the strings "nan" / "inf" / "-inf") -/
theorem encode_noNull (t : Agg) (hg : good t = true) (hu : uniform t = true) : (encode t).noNull = true :=
  Hg.encode_noNull t hg hu

/-- a second round trip is again the identity -/
theorem decode_encode_immut (t : Agg) (hg : good t = true) (hu : uniform t = true) (hk : knownCtype t = true) :
    decode (encode (immut t)) = some (immut t) :=
  Hg.decode_encode_immut t hg hu hk

theorem good_immut (t : Agg) (hg : good t = true) (hu : uniform t = true) :
    good (immut t) = true ∧ uniform (immut t) = true :=
  Hg.good_immut t hg hu

/-! the reloaded container is interchangeable with the original -/

theorem zero_immut (t : Agg) : zero (immut t) = immut (zero t) := Hg.zero_immut t

theorem mul_immut (t : Agg) (f : Val) : mul (immut t) f = immut (mul t f) := Hg.mul_immut t f

theorem add_immut (a b : Agg) (ha : good a = true) (hb : good b = true)
    (hta : hasTmpl a = true) (htb : hasTmpl b = true) (h : sameBase a b = true) :
    add (immut a) (immut b) = (add a b).map immut :=
  Hg.add_immut a b ha hb hta htb h

/-- `copy()` of a reload: `copy = self + self.zero()` -/
theorem copy_immut (a : Agg) (ha : good a = true) (hu : uniform a = true) :
    copy (immut a) = some (immut a) := by
  have h := (Hg.good_immut a ha hu).1
  simpa [copy] using Hg.add_zero_right (immut a) h

/-- **every reachable state round-trips**: after any admissible history of fill / fill.numpy / + / += / * / zero() /
copy() (Hg.Model.History) from an empty live tree that is uniform through its templates (`uniformT`: what the
constructors of the library can build — `Hg.RoundTrip.Counter` is the checked counterexample for plain `uniform`),
every aggregator of the pool serialises to a document that loads as its immutable form, which is well-formed and
satisfies the bookkeeping invariants of C05 -/
theorem history_roundtrip (z : Agg) (ops : List HOp)
    (hz : isZeroTree z = true) (hg : good z = true) (ht : hasTmpl z = true) (hu : uniformT z = true)
    (hok : okRun [z] ops = true) (hgf : goodFills [z] ops = true) :
    ∀ a ∈ runH z ops, decode (encode a) = some (immut a) ∧ good (immut a) = true ∧ inv (immut a) = true :=
  Hg.history_roundtrip z ops hz hg ht hu hok hgf

/-! non-vacuity -/
open Hg.Ex in
example : uniform (fillAll z s1) = true ∧ knownCtype (fillAll z s1) = true ∧ hasTmpl (fillAll z s1) = true := by
  decide +kernel
open Hg.Ex in
#guard good (fillAll z (s1 ++ s2)) && decide (decode (encode (fillAll z (s1 ++ s2))) = some (immut (fillAll z (s1 ++ s2))))

end Hg.C04
