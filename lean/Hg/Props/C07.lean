/-
  Hg.Props.C07 — in-place merge (+=) agrees with pure merge (+).
  `iaddCode` (Hg.Model.Spec) follows the container `__iadd__` methods effect by effect.
  Content part only; that `a` stays the same object and shares nothing with `b` afterwards is a
  statement about object identity, checked by the harness on the real objects (DESIGN §6 C07).
-/
import Hg.Proofs.CompatLaws
import Hg.Proofs.TreeLaws1
import Hg.Props.Examples

namespace Hg.C07

/-- After `a += b`, `a` has exactly the content of `(old a) + b` (and `b`, an argument of a pure
function, is unchanged). -/
theorem iadd_eq_add (a b : Agg) (hb : good b = true) (h : compat a b = true) :
    iaddCode a b = (addRaw a b, true) :=
  Hg.iaddCode_eq_add a b hb h

/-- in particular for any two states of one live tree -/
theorem iadd_eq_add_sameBase (a b : Agg) (ha : good a = true) (hb : good b = true)
    (hta : hasTmpl a = true) (htb : hasTmpl b = true) (h : sameBase a b = true) :
    iaddCode a b = (addRaw a b, true) ∧ add a b = some (addRaw a b) := by
  have hc := Hg.compat_of_sameBase a b ha hb hta htb h
  exact ⟨Hg.iaddCode_eq_add a b hb hc, by simp [add, hc]⟩

open Hg.Ex in
#guard good (fillAll z s1) && good (fillAll z s2) && sameBase (fillAll z s1) (fillAll z s2) &&
  decide (iaddCode (fillAll z s1) (fillAll z s2) = (fillAll z (s1 ++ s2), true))

end Hg.C07
