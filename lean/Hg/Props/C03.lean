/-
  Hg.Props.C03 — the vectorised fill is observationally equal to the per-row fill.
  `fillNp` (Hg.Model.Np) transcribes every `_numpy` method (masked weight vectors per child, batch
  reductions at the leaves; numpy's histogram / unique / average enter as their contracts).
  `prune` drops sparse bins / categories / bag keys of zero weight.  Hypotheses: weights finite and
  non-negative, the per-row run is good, no NaN reaches a `Sum` (known finding C03-sum-nan), and
  `qtysOk`: every quantity of the tree evaluates on every record (the vectorised path evaluates all
  quantities on the whole batch, the row-wise path only on the routed records).
-/
import Hg.Proofs.NpLaws
import Hg.Proofs.DenoteLaws
import Hg.Proofs.TreeLaws3
import Hg.Proofs.CountTLaws

namespace Hg.C03

/-- **Vectorised fill = per-row fill**, up to zero-weight sparse bins, for every live tree in any
good state, every batch (any length, NaN / ±inf / edge values) and every non-negative weight vector -/
theorem fillNp_eq_rows (t : Agg) (rows : List Datum) (ws : List Val)
    (hlen : rows.length = ws.length) (hw : nonNegW ws = true)
    (hrun : goodRun t (rows.zip ws) = true) (ht : hasTmpl t = true) (hs : noNanForSums t rows = true)
    (hq : qtysOk t rows = true) :
    (fillNp t rows ws).map prune = some (prune (fillAll t (rows.zip ws))) :=
  Hg.fillNp_eq_rows t rows ws hlen hw hrun ht hs hq

/-- with C02: a vectorised fill of an empty tree computes the closed-form specification `denote` of the batch's
weighted multiset, up to zero-weight sparse bins -/
theorem fillNp_eq_denote (z : Agg) (rows : List Datum) (ws : List Val)
    (hz : isZeroTree z = true) (hn : noBins z = true)
    (hlen : rows.length = ws.length) (hw : nonNegW ws = true)
    (hrun : goodRun z (rows.zip ws) = true) (ht : hasTmpl z = true) (hs : noNanForSums z rows = true)
    (hq : qtysOk z rows = true) :
    (fillNp z rows ws).map prune = some (prune (denote z (rows.zip ws))) := by
  rw [← Hg.fillAll_eq_denote z (rows.zip ws) hz ht hn hrun]
  exact Hg.fillNp_eq_rows z rows ws hlen hw hrun ht hs hq

/-- successive `fill.numpy` calls on any split of a batch equal one call on the whole batch -/
theorem fillNp_split (t : Agg) (rows1 rows2 : List Datum) (ws1 ws2 : List Val)
    (h1 : rows1.length = ws1.length) (h2 : rows2.length = ws2.length)
    (hw1 : nonNegW ws1 = true) (hw2 : nonNegW ws2 = true)
    (hrun : goodRun t ((rows1 ++ rows2).zip (ws1 ++ ws2)) = true) (ht : hasTmpl t = true)
    (hs : noNanForSums t (rows1 ++ rows2) = true) (hq : qtysOk t (rows1 ++ rows2) = true) :
    ∃ a b c, fillNp t rows1 ws1 = some a ∧ fillNp a rows2 ws2 = some b ∧
      fillNp t (rows1 ++ rows2) (ws1 ++ ws2) = some c ∧ prune b = prune c :=
  Hg.fillNp_split t rows1 rows2 ws1 ws2 h1 h2 hw1 hw2 hrun ht hs hq

/-- the negative witness behind known finding C03-sum-nan: on `[1, NaN, 2]` the vectorised `Sum`
gives 3 where the row-wise fill gives NaN -/
theorem sum_nan_np_differs :
    let s : Agg := .node (.sum ⟨0, none, true⟩) 0 (.sum 0) none []
    let rows : List Datum := [[.num (.fin 1)], [.num .nan], [.num (.fin 2)]]
    (fillNp s rows [1, 1, 1]).map prune ≠ some (prune (fillAll s (rows.zip [1, 1, 1]))) :=
  Hg.sum_nan_np_differs

/-- a Count with **any** weight transform `f` (`Hg.Model.CountT`, outside the tree model): the vectorised fill with a
weight array equals the per-row fill — rows whose weight fails the gate `weight > 0` contribute nothing, whatever `f`
makes of them -/
theorem count_transform_np_eq_rows {W : Type} (pos : W → Bool) (f : W → Rat) (c : Rat) (ws : List W) :
    CountT.fillNp pos f c ws = CountT.fillAll pos f c ws :=
  (CountT.fillAll_eq_np pos f c ws).symm

/-- … and with a scalar weight on a batch of `n` rows it equals `n` per-row fills of that weight -/
theorem count_transform_np_scalar_eq_rows {W : Type} (pos : W → Bool) (f : W → Rat) (c : Rat) (w : W) (n : Nat) :
    CountT.fillNpScalar pos f c w n = CountT.fillAll pos f c (List.replicate n w) :=
  CountT.fillNpScalar_eq pos f c w n

/-! non-vacuity: a transform with `f 0 ≠ 0` ("count the rows") on weights with a zero and a NaN -/
example : CountT.fillNp Val.pos (fun _ => 1) 0 [.fin 2, .fin 0, .nan, .fin (1/2)] = 2 := by decide +kernel

end Hg.C03
