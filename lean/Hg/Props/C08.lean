/-
  Hg.Props.C08 — scaling by a factor equals refilling with every weight multiplied by it.
-/
import Hg.Proofs.FillLaws
import Hg.Proofs.ScalePartition
import Hg.Props.Examples

namespace Hg.C08

/-- for `f <= 0` or NaN the result is the empty aggregator -/
theorem mul_nonpos (t : Agg) (f : Val) (h : f.pos = false) : mul t f = zero t := Hg.mul_nonpos t f h

/-- **`h * f` equals the aggregate obtained by filling the same data with every weight multiplied
by `f`** (exact arithmetic; all streams, all trees) -/
theorem mul_eq_refill (z : Agg) (s : List (Datum × Val)) (f : Val) (hz : isZeroTree z = true)
    (hrun : goodRun z s = true) (hf : f.posFin) :
    mul (fillAll z s) f = fillAll z (s.map (fun dw => (dw.1, f * dw.2))) :=
  Hg.mul_eq_refill z s f hz hrun hf

theorem scale_one (t : Agg) (hg : good t = true) : scale t 1 = t := Hg.scale_one t hg

/-- `(h*a)*b == h*(a*b)` -/
theorem scale_scale (t : Agg) (f g : Val) (hg : good t = true) (hf : f.posFin) (hgp : g.posFin) :
    scale (scale t f) g = scale t (f * g) :=
  Hg.scale_scale t f g hg hf hgp

/-- `h*2 == h + h` -/
theorem scale_two_eq_add_self (t : Agg) (hg : good t = true) (ht : hasTmpl t = true) :
    add t t = some (scale t 2) :=
  Hg.scale_two_eq_add_self t hg ht

/-- scaling distributes over `+` -/
theorem scale_add (a b : Agg) (f : Val) (ha : good a = true) (hb : good b = true)
    (hta : hasTmpl a = true) (htb : hasTmpl b = true) (h : sameBase a b = true) (hf : f.posFin) :
    scale (addRaw a b) f = addRaw (scale a f) (scale b f) :=
  Hg.scale_addRaw a b f ha hb hta htb h hf

/-- the scaled result is a first-class state of the same tree: good, and of the same base, so every
later fill / merge / serialisation is covered by the other theorems -/
theorem good_scale (t : Agg) (f : Val) (hg : good t = true) (hf : f.posFin) :
    good (scale t f) = true ∧ sameBase t (scale t f) = true :=
  Hg.good_scale t f hg hf

/-- one further fill commutes with the scaling -/
theorem scale_fill (t : Agg) (d : Datum) (w f : Val) (hg : good t = true) (hw : w.okWeight = true)
    (hg' : good (fill t d w).1 = true) (hok : (fill t d w).2 = .ok) (hf : f.posFin) :
    fill (scale t f) d (f * w) = (scale (fill t d w).1 f, .ok) :=
  Hg.scale_fill t d w f hg hw hg' hok hf

/-- any further good run of fills commutes with the scaling (every good state, not only the empty tree) -/
theorem scale_fillAll (t : Agg) (s : List (Datum × Val)) (f : Val) (hrun : goodRun t s = true) (hf : f.posFin) :
    scale (fillAll t s) f = fillAll (scale t f) (s.map (fun dw => (dw.1, f * dw.2))) :=
  Hg.ScF.scale_fillAll hf s t hrun

/-- the stream with every weight multiplied by `f` is again a good run from the empty tree: no fill of it raises,
every intermediate state is good — so every theorem that asks for a good run applies to the refilled side too -/
theorem goodRun_scaled (z : Agg) (s : List (Datum × Val)) (f : Val) (hz : isZeroTree z = true)
    (hrun : goodRun z s = true) (hf : f.posFin) :
    goodRun z (s.map (fun dw => (dw.1, f * dw.2))) = true :=
  Hg.goodRun_scaled z s f hz hrun hf

/-- **scaling commutes with distributed aggregation** (with C01): multiplying every partial result by `f` and
combining the products in any order and grouping equals the whole-dataset aggregate multiplied by `f`. -/
theorem scale_partition (z : Agg) (chunks : List (List (Datum × Val))) (σ : Sched) (f : Val)
    (hz : isZeroTree z = true) (ht : hasTmpl z = true) (hn : noBins z = true)
    (hruns : ∀ c ∈ chunks, goodRun z c = true) (hrun : goodRun z chunks.flatten = true)
    (hσ : σ.leaves.Perm (List.range chunks.length)) (hf : f.posFin) :
    reduce ((chunks.map (fillAll z)).map (fun p => mul p f)) σ = some (mul (fillAll z chunks.flatten) f) :=
  Hg.scale_partition z chunks σ f hz ht hn hruns hrun hσ hf

open Hg.Ex in
#guard decide (reduce (([s1, s2].map (fillAll z)).map (fun p => mul p (.fin (1/2)))) (.node (.leaf 1) (.leaf 0))
  = some (mul (fillAll z (s1 ++ s2)) (.fin (1/2))))

open Hg.Ex in
#guard goodRun z s1 && decide (mul (fillAll z s1) (.fin (1/2)) = fillAll z (s1.map (fun dw => (dw.1, Val.fin (1/2) * dw.2))))
example : (Val.fin (1/2)).posFin := ⟨1/2, rfl, by decide +kernel⟩

end Hg.C08
