/-
  Hg.Props.C13 — the derived views (`num_bins`, `bin_edges`, `bin_centers`, `bin_entries`) are mutually
  consistent and describe the partition `fill` uses.  The accessor model (`Hg.Model.Access`) is
  transcribed from the accessor methods with exact arithmetic and compared with the real accessors
  on every run (harness/props/c13.py); the routing functions are the ones `fill` uses (`Hg.Model.Route`).
-/
import Hg.Proofs.AccessLaws2

namespace Hg.C13

/-- `Bin.bin(x)`: for `low ≤ x < high` the index lies in `[0, n)` and the bin is the half-open
interval `[low + i·w, low + (i+1)·w)` -/
theorem binIndex_spec (n : Nat) (L H x : Rat) (hn : 0 < n) (hLH : L < H) (h1 : L ≤ x) (h2 : x < H) :
    binIndex n L H x < n ∧
    L + Bin.width n L H * (binIndex n L H x : Nat) ≤ x ∧
    x < L + Bin.width n L H * ((binIndex n L H x : Nat) + 1) :=
  Hg.binIndex_spec n L H x hn hLH h1 h2

/-- SparselyBin (negative indexes and non-dyadic widths included): bin `i = ⌊(x - origin)/width⌋` is
`[origin + i·width, origin + (i+1)·width)` -/
theorem sparse_idx_spec (width origin x : Rat) (hw : 0 < width) :
    origin + width * (Sparse.idx width origin x : Int) ≤ x ∧
    x < origin + width * ((Sparse.idx width origin x : Int) + 1) :=
  Hg.Sparse.idx_spec width origin x hw

/-- one more edge than bins, for the full range and every sub-range query -/
theorem edges_length (n : Nat) (L H : Rat) (low high : Option Rat) (a b : Nat)
    (hs : Bin.span n L H low high = some (a, b)) (hab : a ≤ b + 1) :
    (Bin.edges n L H low high).length = Bin.numBins n L H low high + 1 :=
  Hg.Bin.edges_length n L H low high a b hs hab

/-- one centre per bin -/
theorem centers_length (n : Nat) (L H : Rat) (low high : Option Rat) :
    (Bin.centers n L H low high).length = Bin.numBins n L H low high :=
  Hg.Bin.centers_length n L H low high

/-- one entry per bin -/
theorem entries_length (n : Nat) (L H : Rat) (kids : List (Key × Agg)) (low high : Option Rat) (a b : Nat)
    (hk : (binEntriesAll kids).length = n) (hs : Bin.span n L H low high = some (a, b)) (hb : b < n) (hab : a ≤ b + 1) :
    (Bin.entriesIn n L H kids low high).length = Bin.numBins n L H low high :=
  Hg.Bin.entriesIn_length n L H kids low high a b hk hs hb hab

/-- centres lie strictly between their edges (so edges are strictly increasing) -/
theorem center_between (n : Nat) (L H : Rat) (low high : Option Rat) (hn : 0 < n) (hLH : L < H) (i : Nat)
    (hi : i < (Bin.centers n L H low high).length) :
    ∃ e0 e1 c, (Bin.edges n L H low high)[i]? = some e0 ∧ (Bin.edges n L H low high)[i + 1]? = some e1 ∧
      (Bin.centers n L H low high)[i]? = some c ∧ e0 < c ∧ c < e1 :=
  Hg.Bin.center_between n L H low high hn hLH i hi

/-- a datum filled at `x` is reported in the bin whose edges contain `x` -/
theorem route_in_edges (n : Nat) (L H x : Rat) (hn : 0 < n) (hLH : L < H) (i : Nat)
    (hr : routeBin n L H (.fin x) = .pos i) :
    ∃ e0 e1, (Bin.edges n L H none none)[i]? = some e0 ∧ (Bin.edges n L H none none)[i + 1]? = some e1 ∧
      e0 ≤ x ∧ x < e1 :=
  Hg.Bin.route_in_edges n L H x hn hLH i hr

/-- `bin_entries(xvalues=[x])` is the content of the bin `fill` routes `x` to -/
theorem entryAt_route (n : Nat) (L H x : Rat) (kids : List (Key × Agg)) (i : Nat)
    (hr : routeBin n L H (.fin x) = .pos i) :
    Bin.entryAt n L H kids x = ((binEntriesAll kids)[i]?).getD 0 :=
  Hg.Bin.entryAt_route n L H x kids i hr


/-! ### SparselyBin -/

/-- one more edge than bins -/
theorem sparse_edges_length (width origin : Rat) (kids : List (Key × Agg)) (low high : Option Rat) (a b : Int)
    (hs : Sparse.span width origin kids low high = some (a, b)) (hab : a ≤ b + 1) :
    ((Sparse.edges width origin kids low high).length : Int) = Sparse.numBins width origin kids low high + 1 :=
  Hg.Sparse.edges_length width origin kids low high a b hs hab

/-- one entry per bin -/
theorem sparse_entries_length (width origin : Rat) (kids : List (Key × Agg)) (low high : Option Rat) (a b : Int)
    (hs : Sparse.span width origin kids low high = some (a, b)) (hab : a ≤ b + 1) :
    ((Sparse.entriesIn width origin kids low high).length : Int) = Sparse.numBins width origin kids low high :=
  Hg.Sparse.entriesIn_length width origin kids low high a b hs hab

/-- the i-th edge is the lower edge of bin `a + i` (consecutive edges are `width` apart) -/
theorem sparse_edges_get (width origin : Rat) (kids : List (Key × Agg)) (low high : Option Rat) (a b : Int) (i : Nat)
    (hs : Sparse.span width origin kids low high = some (a, b)) (hi : (i : Int) < b + 2 - a) :
    (Sparse.edges width origin kids low high)[i]? = some (origin + width * ((a + (i : Int) : Int) : Rat)) :=
  Hg.Sparse.edges_get width origin kids low high a b i hs hi

/-- the i-th reported entry is the content of bin `a + i` (0 for a bin never filled) -/
theorem sparse_entries_get (width origin : Rat) (kids : List (Key × Agg)) (low high : Option Rat) (a b : Int) (i : Nat)
    (hs : Sparse.span width origin kids low high = some (a, b)) (hi : (i : Int) < b + 1 - a) :
    (Sparse.entriesIn width origin kids low high)[i]? =
      some (match lookupK (.idx (a + (i : Int))) kids with | some c => c.entries | none => 0) :=
  Hg.Sparse.entriesIn_get width origin kids low high a b i hs hi

/-- `fill` routes a datum to the bin whose edges contain it (inside the 64-bit index range; outside it
`fill` saturates: `Hg.Sparse.route_sat_low/high`) -/
theorem sparse_route_idx (width origin x : Rat)
    (hlo : ((LONG_MINUSINF : Int) : Rat) < (x - origin) / width)
    (hhi : (x - origin) / width < ((LONG_PLUSINF : Int) : Rat)) :
    sparseIndex width origin (.fin x) = .idx (Sparse.idx width origin x) :=
  Hg.Sparse.route_idx width origin x hlo hhi

/-- `bin_entries(xvalues=[x])` is the content of the bin `fill` routes `x` to -/
theorem sparse_entryAt_route (width origin x : Rat) (kids : List (Key × Agg)) :
    Sparse.entryAt width origin kids x =
      (match lookupK (sparseIndex width origin (.fin x)) kids with | some c => c.entries | none => 0) :=
  Hg.Sparse.entryAt_route width origin x kids

/-! ### CentrallyBin -/

/-- `fill` routes to the centre at `index(x, greater=True)`: a value on a midpoint goes up -/
theorem central_pick_eq_index (x : Val) (cs : List Rat) : centralPick x cs = cs[Central.index true x cs]? :=
  Hg.Central.pick_eq_index x cs

theorem central_index_lt (g : Bool) (x : Val) (cs : List Rat) (h : cs ≠ []) : Central.index g x cs < cs.length :=
  Hg.Central.index_lt g x cs h

/-- the lower/upper lookups differ only on midpoints -/
theorem central_index_eq_of_no_tie (x : Val) (cs : List Rat)
    (hne : ∀ (i : Nat) (h : i + 1 < cs.length), x ≠ .fin ((cs[i] + cs[i + 1]) / 2)) :
    Central.index false x cs = Central.index true x cs :=
  Hg.Central.index_eq_of_no_tie x cs hne

theorem central_entries_centers_length (kids : List (Key × Agg)) (cs : List Rat) (low high : Option Rat)
    (hk : (binEntriesAll kids).length = cs.length) :
    (Central.entriesIn kids cs low high).length = (Central.centersIn cs low high).length :=
  Hg.Central.entries_centers_length kids cs low high hk

/-! ### IrregularlyBin -/

/-- the bin `fill` picks is the one `_lower_index` reports (thresholds strictly increasing) -/
theorem irregular_pick_lowerIndex (x : Val) (ts : List Val) (t : Val)
    (hs : List.Pairwise (fun a b => Val.lt a b = true) ts) (hp : irregularPick x ts = some t) :
    ts[Irregular.lowerIndex x ts]? = some t :=
  Hg.Irregular.pick_lowerIndex x ts t hs hp

/-! non-vacuity: Bin(5, -1, 4): the query (0.5, 3) spans bins 1..3; 2.3 is routed to bin 3 -/
example : Bin.span 5 (-1) 4 (some (1/2)) (some 3) = some (1, 3) := by decide +kernel
example : Bin.edges 5 (-1) 4 (some (1/2)) (some 3) = [0, 1, 2, 3] := by decide +kernel
example : routeBin 5 (-1) 4 (.fin (23/10)) = .pos 3 := by decide +kernel
example : Sparse.idx (3/10) (1/7) (-2) = -8 := by decide +kernel
example : centralPick (.fin 1) [0, 2, 5] = some 2 ∧ Central.index true (.fin 1) [0, 2, 5] = 1 := by decide +kernel
example : irregularPick (.fin 3) [.ninf, .fin 1, .fin 4] = some (.fin 1) := by decide +kernel

end Hg.C13
