/-
  Hg.Props.C17 — user-function wrappers preserve behaviour (model: Hg.Model.Fcn).
  The string-expression clause of the property (evaluation through Python's `eval` on dict /
  attribute / scalar records) is outside what a model without Python semantics can state; it is
  decided by the differential check of the harness (partial claim).
-/
import Hg.Proofs.FcnLaws

namespace Hg.C17

/-- `named`, `cached` and `serializable` applied in any of the six orders yield the same wrapper,
with the given name -/
theorem wrappers_commute (b : Nat) (n : String) (ops : List WOp)
    (hp : ops.Perm [.named n, .cached, .serializable]) :
    (Fcn.ofBase b).applyAll ops = some ⟨b, some n, true⟩ :=
  Hg.wrappers_commute b n ops hp

/-- applying a second name raises -/
theorem named_twice_raises (f : Fcn) (n : String) (h : f.name.isSome = true) : f.apply (.named n) = none :=
  Hg.named_twice_raises f n h

/-- A cached function returns on every call exactly what the underlying function returns for those
arguments, however calls with equal and different arguments are interleaved (any start memo that is
consistent with the function, any call sequence). -/
theorem cached_transparent (g : Nat → Nat) (m : Memo) (calls : List Nat) (h : m.ok g) :
    runCached g m calls = calls.map g :=
  Hg.cached_transparent g m calls h

/-- … also for a function that raises for some arguments (`none`): the wrapper raises exactly when the function
does, however often a failing argument is repeated (the order of effects of `CachedFcn.__call__` after fix f118426;
`Hg.stale_after_raise_old` is the kernel-checked witness for the earlier order) -/
theorem cached_transparent_partial (g : Nat → Option Nat) (m : Memo) (calls : List Nat) (h : m.okP g) :
    runCachedP g m calls = calls.map g :=
  Hg.cached_transparent_partial g m calls h

theorem cached_idem (f g : Fcn) (h : f.apply .cached = some g) : g.apply .cached = some g :=
  Hg.cached_idem f g h

/-! non-vacuity -/
example : [WOp.cached, .serializable, .named "n"].Perm [.named "n", .cached, .serializable] := by decide
example : runCached (fun a => a * 2 + 1) none [2, 2, 5, 2, 2] = [5, 5, 11, 5, 5] := by decide
example : evalCount (fun a => a * 2 + 1) none [2, 2, 5, 2, 2] = 3 := by decide

end Hg.C17
