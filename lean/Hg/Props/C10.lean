/-
  Hg.Props.C10 — incompatible aggregators are never merged silently.
  `Mismatch a b` (Hg.Model.Spec): somewhere in the two trees the primitive type, a structural
  parameter, or the child layout differs.  `add` is a pure function, so a rejected `+` trivially
  leaves both operands as they were; for `+=` the code's order of effects is modelled by
  `iaddCode` (Hg.Model.Spec).
-/
import Hg.Proofs.CompatLaws
import Hg.Props.Examples

namespace Hg.C10

/-- a structural mismatch anywhere in the trees makes `+` raise -/
theorem mismatch_rejected (a b : Agg) (h : Mismatch a b) : add a b = none := Hg.mismatch_rejected a b h

theorem add_some_iff_compat (a b : Agg) : (∃ c, add a b = some c) ↔ compat a b = true :=
  Hg.add_some_iff_compat a b

/-- different primitive types are never merged -/
theorem add_none_of_typeName (a b : Agg) (h : a.typeName ≠ b.typeName) : add a b = none :=
  Hg.add_none_of_typeName a b h

/-- `+=` raises whenever `+` raises -/
theorem iadd_rejects (a b : Agg) (ha : good a = true) (hb : good b = true) (h : compat a b = false) :
    (iaddCode a b).2 = false :=
  Hg.iaddCode_false_of_not_compat a b ha hb h

/-- **partial** (full statement: a rejected `+=` leaves `a` exactly as it was): proved for a mismatch
detected at the root of the `+=`.  For a mismatch below the root the statement is FALSE of the
code — `entries` and earlier children are already updated when the exception is raised (known
finding C10-nested-iadd, witness below). -/
theorem iadd_rejects_unchanged_partial (a b : Agg) (h : a.kind.sameShape b.kind = false) :
    iaddCode a b = (a, false) :=
  Hg.iaddCode_root_reject a b h

/-- the negative witness: `Label(a=Count)` (entries 1) `+= Label(a=Sum)` raises *after* the left
operand's `entries` became 2 -/
theorem iadd_nested_mismatch_mutates :
    let cnt1 : Agg := .node .count 1 .unit none []
    let sum1 : Agg := .node (.sum ⟨0, none, true⟩) 1 (.sum 1) none []
    let a : Agg := .node .label 1 .unit none [(.lbl "a", cnt1)]
    let b : Agg := .node .label 1 .unit none [(.lbl "a", sum1)]
    (iaddCode a b).2 = false ∧ (iaddCode a b).1 ≠ a := by
  decide +kernel

/-! non-vacuity: a Bin with 2 bins against one with 3 is a `Mismatch` -/
example : Mismatch (.node (.bin ⟨0, none, true⟩ 2 0 1) 0 .unit none []) (.node (.bin ⟨0, none, true⟩ 3 0 1) 0 .unit none []) :=
  Mismatch.here _ _ (by decide +kernel)

end Hg.C10
