/-
  Hg.Props.C01 — merge is a commutative monoid homomorphism: partition-invariant aggregation.

  Property theorems only (helper lemmas live in Hg/Proofs).  Hypotheses are the executable
  predicates of Hg.Model.WF / Live, evaluated by the correspondence run on the states of the real
  library: `good` (structural and state invariants), `hasTmpl` (live tree: sparse containers have
  their templates, templates hold no bins), `noBins` (freshly constructed), `isZeroTree`,
  `sameBase` (two states of one tree), `goodRun z s` (every fill of the stream returns normally,
  weights are finite or gated, intermediate states are good).  Numbers are exact (`Val`).
-/
import Hg.Proofs.TreeLaws3
import Hg.Props.Examples
import Hg.Proofs.CountTLaws
import Hg.Proofs.NpPartition

namespace Hg.C01

/-- `zero()` is a right identity of `+` on every good state. -/
theorem add_zero_right (t : Agg) (h : good t = true) : add t (zero t) = some t :=
  Hg.add_zero_right t h

/-- `zero()` is a left identity of `+` on every good state. -/
theorem add_zero_left (t : Agg) (h : good t = true) : add (zero t) t = some t :=
  Hg.add_zero_left t h

/-- `+` is commutative on any two states of one live tree. -/
theorem add_comm (a b : Agg) (ha : good a = true) (hb : good b = true)
    (hta : hasTmpl a = true) (htb : hasTmpl b = true) (h : sameBase a b = true) :
    add a b = add b a :=
  Hg.add_comm' a b ha hb hta htb h

/-- `+` is associative on any three states of one live tree (in the `Option` monad: every sum is
defined). -/
theorem add_assoc (a b c : Agg) (ha : good a = true) (hb : good b = true) (hc : good c = true)
    (hta : hasTmpl a = true) (htb : hasTmpl b = true) (htc : hasTmpl c = true)
    (hab : sameBase a b = true) (hac : sameBase a c = true) :
    (add a b).bind (fun x => add x c) = (add b c).bind (fun y => add a y) :=
  Hg.add_assoc' a b c ha hb hc hta htb htc hab hac

/-- merge is a homomorphism for fill: filling the left operand and then merging equals merging and
then filling the result -/
theorem fill_add_hom (a b : Agg) (d : Datum) (w : Val)
    (ha : good a = true) (hb : good b = true) (hta : hasTmpl a = true) (htb : hasTmpl b = true)
    (h : sameBase a b = true) (hw : w.okWeight = true) (hga : good (fill a d w).1 = true)
    (hok : (fill a d w).2 = .ok) :
    (fill (addRaw a b) d w).2 = .ok ∧ addRaw (fill a d w).1 b = (fill (addRaw a b) d w).1 :=
  Hg.fill_add_hom a b d w ha hb hta htb h hw hga hok

/-- filling two chunks into fresh empty trees and merging equals filling their concatenation -/
theorem fillAll_append (z : Agg) (xs ys : List (Datum × Val))
    (hz : isZeroTree z = true) (ht : hasTmpl z = true) (hn : noBins z = true)
    (hx : goodRun z xs = true) (hy : goodRun z ys = true) :
    add (fillAll z xs) (fillAll z ys) = some (fillAll z (xs ++ ys)) :=
  Hg.fillAll_append z xs ys hz ht hn hx hy

/-- **Partition invariance.** For every empty live tree `z`, every split of the data into chunks
(empty chunks included) and every reduction schedule `σ` — a binary tree whose leaves are any
permutation of the chunk indices, i.e. any order and any grouping of `+` — combining the partial
results gives exactly the aggregate of the whole dataset. -/
theorem partition_invariant (z : Agg) (chunks : List (List (Datum × Val))) (σ : Sched)
    (hz : isZeroTree z = true) (ht : hasTmpl z = true) (hn : noBins z = true)
    (hruns : ∀ c ∈ chunks, goodRun z c = true) (hrun : goodRun z chunks.flatten = true)
    (hσ : σ.leaves.Perm (List.range chunks.length)) :
    reduce (chunks.map (fillAll z)) σ = some (fillAll z chunks.flatten) :=
  Hg.partition_invariant z chunks σ hz ht hn hruns hrun hσ

/-! non-vacuity: a two-member Branch (sparse profile + histogram), two chunks with NaN and +inf data
and a fractional weight, and the schedule `p1 + p0` satisfy every hypothesis -/
open Hg.Ex in
example : isZeroTree z = true ∧ hasTmpl z = true ∧ noBins z = true := by decide +kernel
open Hg.Ex in
#guard good z && goodRun z s1 && goodRun z s2 && goodRun z (s1 ++ s2) && sameBase (fillAll z s1) (fillAll z s2)
open Hg.Ex in
#guard decide (reduce ([s1, s2].map (fillAll z)) (.node (.leaf 1) (.leaf 0)) = some (fillAll z (s1 ++ s2)))
open Hg.Ex in
example : (Sched.node (.leaf 1) (.leaf 0)).leaves.Perm (List.range [s1, s2].length) := by decide

/-- **partition invariance with vectorised chunk fills** (with C03): every chunk is filled into an empty copy of the tree
by ONE `fill.numpy` call with its own weight vector, the partial results are combined with `+` in any order and
grouping; the result is the record-by-record fill of the whole dataset, up to zero-weight sparse bins.  Per chunk the
hypotheses are those of C03 `fillNp_eq_rows`. -/
theorem np_partition_invariant (z : Agg) (chunks : List NpChunk) (σ : Sched)
    (hz : isZeroTree z = true) (hg : good z = true) (ht : hasTmpl z = true) (hn : noBins z = true)
    (hc : ∀ c ∈ chunks, c.1.length = c.2.length ∧ nonNegW c.2 = true ∧ goodRun z c.stream = true ∧
        noNanForSums z c.1 = true ∧ qtysOk z c.1 = true)
    (hrun : goodRun z (chunks.map NpChunk.stream).flatten = true)
    (hσ : σ.leaves.Perm (List.range chunks.length)) :
    ∃ parts, chunks.mapM (fun c => fillNp z c.1 c.2) = some parts ∧
      (reduce parts σ).map prune = some (prune (fillAll z (chunks.map NpChunk.stream).flatten)) :=
  Hg.np_partition_invariant z chunks σ hz hg ht hn hc hrun hσ

/-- partition invariance for a Count with **any** weight transform `f` (`Hg.Model.CountT`; the tree model has identity
Counts only): every partition into chunks, every order and grouping of `+` -/
theorem count_transform_partition_invariant {W : Type} (pos : W → Bool) (f : W → Rat)
    (chunks : List (List W)) (σ : Sched) (hσ : σ.leaves.Perm (List.range chunks.length)) :
    CountT.reduceT (chunks.map (CountT.fillAll pos f 0)) σ = some (CountT.fillAll pos f 0 chunks.flatten) :=
  CountT.partition_invariant pos f chunks σ hσ

example : CountT.reduceT ([[Val.fin 2, .nan], [], [.fin 3, .fin 0]].map (CountT.fillAll Val.pos (fun w => match w with | .fin q => q * q | _ => 0) 0))
    (.node (.leaf 2) (.node (.leaf 0) (.leaf 1))) = some 13 := by decide +kernel

end Hg.C01
