/-
  Hg.Props.Examples — concrete non-trivial states used by the non-vacuity checks next to the
  property theorems.  Hypotheses built from structurally recursive predicates are checked in the
  kernel (`decide +kernel`); `good`, `sameBase` and `goodRun` go through a well-founded recursion
  that the kernel does not unfold, so their instances are checked with `#guard` (evaluation of the
  same definitions by Lean's interpreter) — a sanity check of satisfiability, not a theorem.
-/
import Hg.Model.Spec

namespace Hg.Ex

def q0 : Qty := ⟨0, none, true⟩
def q1 : Qty := ⟨1, some "y", true⟩
def cnt : Agg := .node .count 0 .unit none []
def avg : Agg := .node (.average q1) 0 (.mean .nan) none []
/-- `SparselyBin(1, q0, Average(q1))` -/
def sp : Agg := .node (.sparse q0 1 0 "Average" (some "y")) 0 .unit (some avg) [(.nanflow, cnt)]
/-- `Bin(2, 0, 2, q0)` -/
def bin2 : Agg :=
  .node (.bin q0 2 0 2) 0 .unit none [(.under, cnt), (.over, cnt), (.nanflow, cnt), (.pos 0, cnt), (.pos 1, cnt)]
/-- `Branch(SparselyBin(1, q0, Average(q1)), Bin(2, 0, 2, q0))`, empty -/
def z : Agg := .node .branch 0 .unit none [(.ith 0, sp), (.ith 1, bin2)]
/-- two records: (x = 1/2, y = 3) with weight 1 and (x = NaN, y = 1) with weight 2 -/
def s1 : List (Datum × Val) := [([.num (.fin (1/2)), .num (.fin 3)], 1), ([.num .nan, .num (.fin 1)], 2)]
/-- two records: (x = 3/2, y = +inf) with weight 1 and (x = 5, y = 1) with weight 1/2 -/
def s2 : List (Datum × Val) := [([.num (.fin (3/2)), .num .pinf], 1), ([.num (.fin 5), .num (.fin 1)], .fin (1/2))]

end Hg.Ex

