/-
  Hg.Props.C06 — non-interference.
  The heap model (Hg.Model.Shape): objects with a payload and references; `reachN h n r` is what is
  reachable from root `r` within `n` steps, `viewN h n r` everything observable from `r` to that
  depth.  The premise — that the object graph of a result is disjoint from those of its operands
  (templates excepted) — is observed on the real library by the harness on every run.
-/
import Hg.Proofs.ShapeLaws

namespace Hg.C06

/-- If a mutation writes only objects in `ws`, and nothing reachable from root `s` is in `ws`, then
everything observable from `s` — its own state and that of every object below it — is unchanged. -/
theorem noninterference (h h' : Heap) (ws : List Nat) (s : Nat) (n : Nat)
    (hw : Heap.agreesOutside h h' ws) (hd : ∀ i ∈ reachN h n s, i ∉ ws) :
    viewN h' n s = viewN h n s ∧ reachN h' n s = reachN h n s :=
  Hg.noninterference h h' ws s n hw hd

/-- Filling, merging into or scaling a result `r` (a mutation confined to what is reachable from `r`)
never changes an operand `s` whose object graph is disjoint from `r`'s — and vice versa. -/
theorem disjoint_noninterference (h h' : Heap) (r s : Nat) (n : Nat)
    (hw : Heap.agreesOutside h h' (reachN h n r))
    (hd : ∀ i ∈ reachN h n s, i ∉ reachN h n r) :
    viewN h' n s = viewN h n s :=
  Hg.disjoint_noninterference h h' r s n hw hd

/-! non-vacuity: two roots 1 → 2 and 3 → 4; rewriting object 2 is invisible from root 3 -/
def h0 : Heap := fun i => if i = 1 then some ⟨10, [2]⟩ else if i = 2 then some ⟨20, []⟩ else
  if i = 3 then some ⟨30, [4]⟩ else if i = 4 then some ⟨40, []⟩ else none
def h1 : Heap := fun i => if i = 2 then some ⟨99, []⟩ else h0 i
example : viewN h1 2 3 = viewN h0 2 3 ∧ viewN h1 2 1 ≠ viewN h0 2 1 := by decide

end Hg.C06
