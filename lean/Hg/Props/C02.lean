/-
  Hg.Props.C02 — fill computes a function of the weighted multiset of data: order independence and
  the weight gate.  (The closed-form specification of every node's value is checked against the
  implementation by the independent exact-rational reference evaluator of the harness; the theorems
  here are the order- and gate-related consequences, proved for all trees and streams.)
-/
import Hg.Proofs.TreeLaws3
import Hg.Props.Examples

namespace Hg.C02

/-- A fill whose weight is `<= 0` or NaN changes nothing (and does not raise), whatever the tree and
the datum. -/
theorem fill_gate (t : Agg) (d : Datum) (w : Val) (hw : w.pos = false) : fill t d w = (t, .ok) :=
  Hg.fill_gate t d w hw

/-- **Order independence.** Filling any permutation of a stream into an empty live tree gives the
same aggregate. (`hs`: every record alone is a good run from the empty tree — no fault, finite or
gated weight — which is what the harness checks on the real runs.) -/
theorem fillAll_perm (z : Agg) (xs ys : List (Datum × Val))
    (hz : isZeroTree z = true) (ht : hasTmpl z = true) (hn : noBins z = true) (hg : good z = true)
    (hs : ∀ dw ∈ xs, goodRun z [dw] = true) (hp : xs.Perm ys) :
    fillAll z ys = fillAll z xs ∧ goodRun z ys = true :=
  Hg.fillAll_perm z xs ys hz ht hn hg hs hp

/-- whether a fill raises depends only on the static structure and the datum, never on what has been
aggregated so far -/
theorem fill_ok_indep (a b : Agg) (d : Datum) (w : Val) (ha : good a = true) (hb : good b = true)
    (hta : hasTmpl a = true) (htb : hasTmpl b = true) (h : sameBase a b = true) :
    (fill a d w).2 = (fill b d w).2 :=
  Hg.fill_ok_indep a b d w ha hb hta htb h

/-! routing conventions, stated outright (exact arithmetic) -/

/-- Bin: NaN goes to nanflow, `x < low` to underflow, `x >= high` (the upper edge included) to
overflow, everything else to a regular bin. -/
theorem routeBin_spec (n : Nat) (low high : Rat) (x : Val) :
    routeBin n low high x =
      match x with
      | .nan => .nanflow
      | .ninf => .under
      | .pinf => .over
      | .fin q => if q < low then .under else if high ≤ q then .over else .pos (binIndex n low high q) := by
  cases x <;> rfl

/-- CentrallyBin: a value exactly on the midpoint of two centres belongs to the upper one -/
theorem centralPick_midpoint (c c' : Rat) (rest : List Rat) :
    centralPick (.fin ((c + c') / 2)) (c :: c' :: rest) = centralPick (.fin ((c + c') / 2)) (c' :: rest) := by
  simp [centralPick, Val.lt]

/-! non-vacuity -/
open Hg.Ex in
example : isZeroTree z = true ∧ hasTmpl z = true ∧ noBins z = true := by decide +kernel
open Hg.Ex in
#guard good z && (s1 ++ s2).all (fun dw => goodRun z [dw]) && decide (fillAll z (s2 ++ s1) = fillAll z (s1 ++ s2))
example : (Val.nan).pos = false ∧ (Val.fin 0).pos = false ∧ (Val.fin (-1)).pos = false := by decide +kernel

end Hg.C02
