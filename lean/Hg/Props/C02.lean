/-
  Hg.Props.C02 — fill computes the specified function of the weighted multiset of data.
  `denote` (Hg.Model.Denote) is the specification: closed forms over the multiset of (datum, weight)
  pairs with weight > 0 — sum of weights, weighted sum, weighted mean and variance with the
  special-value table, extrema ignoring NaN, value-to-weight map, and for containers the sub-multiset
  `route` assigns to each child — written without reference to `fill`.  `fillAll_eq_denote` states
  that every stream of fills produces exactly that aggregate; order independence and the weight gate
  are consequences.  `denote` itself is compared with the implementation on every run of the check
  (driver op `denote`), next to the independent exact-rational reference evaluator of the harness.
-/
import Hg.Proofs.TreeLaws3
import Hg.Proofs.DenoteLaws
import Hg.Props.Examples
import Hg.Proofs.CountTLaws

namespace Hg.C02

/-- **fill computes the specification**: for every empty live tree (all 19 primitives, any nesting) and
every stream that is a good run (no quantity raises, every weight finite or gated out), filling the
stream record by record yields `denote z s`. -/
theorem fillAll_eq_denote (z : Agg) (s : List (Datum × Val))
    (hz : isZeroTree z = true) (ht : hasTmpl z = true) (hn : noBins z = true)
    (hrun : goodRun z s = true) :
    fillAll z s = denote z s :=
  Hg.fillAll_eq_denote z s hz ht hn hrun

/-- the specification depends on the multiset only (no hypothesis needed) -/
theorem denote_perm (z : Agg) (s s' : List (Datum × Val)) (hp : s.Perm s') : denote z s' = denote z s :=
  Hg.Den.denote_perm' z s s' hp

/-- records that do not pass the weight gate do not matter to the specification -/
theorem denote_gated (z : Agg) (s : List (Datum × Val)) : denote z (gated s) = denote z s :=
  Hg.denote_gated z s

/-- A fill whose weight is `<= 0` or NaN changes nothing (and does not raise), whatever the tree and
the datum. -/
theorem fill_gate (t : Agg) (d : Datum) (w : Val) (hw : w.pos = false) : fill t d w = (t, .ok) :=
  Hg.fill_gate t d w hw

/-- **Order independence.** Filling any permutation of a stream into an empty live tree gives the
same aggregate. (`hs`: every record alone is a good run from the empty tree — no fault, finite or
gated weight — which is what the harness checks on the real runs.) -/
theorem fillAll_perm (z : Agg) (xs ys : List (Datum × Val))
    (hz : isZeroTree z = true) (ht : hasTmpl z = true) (hn : noBins z = true) (hg : good z = true)
    (hs : ∀ dw ∈ xs, goodRun z [dw] = true) (hp : xs.Perm ys) :
    fillAll z ys = fillAll z xs ∧ goodRun z ys = true :=
  Hg.fillAll_perm z xs ys hz ht hn hg hs hp

/-- whether a fill raises depends only on the static structure and the datum, never on what has been
aggregated so far -/
theorem fill_ok_indep (a b : Agg) (d : Datum) (w : Val) (ha : good a = true) (hb : good b = true)
    (hta : hasTmpl a = true) (htb : hasTmpl b = true) (h : sameBase a b = true) :
    (fill a d w).2 = (fill b d w).2 :=
  Hg.fill_ok_indep a b d w ha hb hta htb h

/-! routing conventions, stated outright (exact arithmetic) -/

/-- Bin: NaN goes to nanflow, `x < low` to underflow, `x >= high` (the upper edge included) to
overflow, everything else to a regular bin. -/
theorem routeBin_spec (n : Nat) (low high : Rat) (x : Val) :
    routeBin n low high x =
      match x with
      | .nan => .nanflow
      | .ninf => .under
      | .pinf => .over
      | .fin q => if q < low then .under else if high ≤ q then .over else .pos (binIndex n low high q) := by
  cases x <;> rfl

/-- CentrallyBin: a value exactly on the midpoint of two centres belongs to the upper one -/
theorem centralPick_midpoint (c c' : Rat) (rest : List Rat) :
    centralPick (.fin ((c + c') / 2)) (c :: c' :: rest) = centralPick (.fin ((c + c') / 2)) (c' :: rest) := by
  simp [centralPick, Val.lt]

/-! non-vacuity -/
open Hg.Ex in
example : isZeroTree z = true ∧ hasTmpl z = true ∧ noBins z = true := by decide +kernel
open Hg.Ex in
#guard good z && (s1 ++ s2).all (fun dw => goodRun z [dw]) && decide (fillAll z (s2 ++ s1) = fillAll z (s1 ++ s2))
open Hg.Ex in
#guard decide (fillAll z (s1 ++ s2) = denote z (s1 ++ s2)) && goodRun z (s1 ++ s2)
example : (Val.nan).pos = false ∧ (Val.fin 0).pos = false ∧ (Val.fin (-1)).pos = false := by decide +kernel

/-- a Count with **any** weight transform `f` (`Hg.Model.CountT`): what it holds after any stream is the sum of `f w` over
the records whose weight passes the gate `weight > 0` — the gate is on the weight handed to fill, not on what the
transform makes of it -/
theorem count_transform_spec {W : Type} (pos : W → Bool) (f : W → Rat) (ws : List W) :
    CountT.fillAll pos f 0 ws = CountT.sumR ((ws.filter pos).map f) := by
  rw [CountT.fillAll_eq_np]; simp [CountT.fillNp]

/-- … and a fill whose weight does not pass the gate changes nothing, whatever the transform -/
theorem count_transform_gate {W : Type} (pos : W → Bool) (f : W → Rat) (c : Rat) (w : W) (h : pos w = false) :
    CountT.fill pos f c w = c := by
  simp [CountT.fill, h]

example : CountT.fillAll Val.pos (fun w => match w with | .fin q => q * q | _ => 0) 0
    [.fin 2, .fin (-3), .fin (1/2), .fin 0, .nan] = 17/4 := by decide +kernel

end Hg.C02
