/-
  Hg.Driver.Wire — text reader/printer for the line protocol (unverified glue, DESIGN §4.1).

  The wire format is standard JSON in which every JSON *string* carries a one-character tag:
    "#3/2", "#-7", "#nan", "#inf", "#-inf"   an exact number
    "$abc"                                    a string
  Object keys are untagged.  Plain JSON numbers are accepted too (integers only).
-/
import Hg.Model.Json

namespace Hg.Wire
open Hg

structure P where
  s : Array Char
  i : Nat

def P.peek (p : P) : Option Char := p.s[p.i]?
def P.next (p : P) : P := { p with i := p.i + 1 }

partial def skipWs (p : P) : P :=
  match p.peek with
  | some c => if c = ' ' || c = '\n' || c = '\t' || c = '\r' then skipWs p.next else p
  | none => p

def hexVal (c : Char) : Option Nat :=
  if '0' ≤ c && c ≤ '9' then some (c.toNat - '0'.toNat)
  else if 'a' ≤ c && c ≤ 'f' then some (c.toNat - 'a'.toNat + 10)
  else if 'A' ≤ c && c ≤ 'F' then some (c.toNat - 'A'.toNat + 10)
  else none

partial def parseStr (p : P) (acc : String) : Option (String × P) :=
  match p.peek with
  | none => none
  | some '"' => some (acc, p.next)
  | some '\\' =>
    let p := p.next
    match p.peek with
    | some 'n' => parseStr p.next (acc.push '\n')
    | some 't' => parseStr p.next (acc.push '\t')
    | some 'r' => parseStr p.next (acc.push '\r')
    | some 'b' => parseStr p.next (acc.push (Char.ofNat 8))
    | some 'f' => parseStr p.next (acc.push (Char.ofNat 12))
    | some '/' => parseStr p.next (acc.push '/')
    | some '\\' => parseStr p.next (acc.push '\\')
    | some '"' => parseStr p.next (acc.push '"')
    | some 'u' =>
      let p := p.next
      match p.s[p.i]?, p.s[p.i+1]?, p.s[p.i+2]?, p.s[p.i+3]? with
      | some a, some b, some c, some d =>
        match hexVal a, hexVal b, hexVal c, hexVal d with
        | some a, some b, some c, some d =>
          parseStr { p with i := p.i + 4 } (acc.push (Char.ofNat (((a * 16 + b) * 16 + c) * 16 + d)))
        | _, _, _, _ => none
      | _, _, _, _ => none
    | _ => none
  | some c => parseStr p.next (acc.push c)

def parseRat (s : String) : Option Rat :=
  match s.splitOn "/" with
  | [a] => a.toInt?.map (fun n => (n : Rat))
  | [a, b] =>
    match a.toInt?, b.toNat? with
    | some n, some d => if d = 0 then none else some ((n : Rat) / (d : Rat))
    | _, _ => none
  | _ => none

partial def parseNumTok (p : P) (acc : String) : String × P :=
  match p.peek with
  | some c => if c.isDigit || c = '-' || c = '+' then parseNumTok p.next (acc.push c) else (acc, p)
  | none => (acc, p)

def expect (p : P) (lit : String) : Option P :=
  let cs := lit.toList
  if (List.range cs.length).all (fun k => p.s[p.i + k]? == cs[k]?) then some { p with i := p.i + cs.length }
  else none

mutual
partial def parseValue (p : P) : Option (Json × P) :=
  let p := skipWs p
  match p.peek with
  | some '"' =>
    match parseStr p.next "" with
    | some (s, p) =>
      if s.startsWith "#" then
        let body := (s.drop 1).toString
        match parseRat body with
        | some q => some (.num q, p)
        | none => some (.str s, p)        -- "#nan", "#inf", "#-inf" stay tagged
      else some (.str s, p)
    | none => none
  | some '{' => parseMembers (skipWs p.next) []
  | some '[' => parseItems (skipWs p.next) []
  | some 't' => (expect p "true").map (fun p => (.bool true, p))
  | some 'f' => (expect p "false").map (fun p => (.bool false, p))
  | some 'n' => (expect p "null").map (fun p => (.null, p))
  | some _ =>
    let (tok, p') := parseNumTok p ""
    match tok.toInt? with
    | some n => some (.num (n : Rat), p')
    | none => none
  | none => none

partial def parseItems (p : P) (acc : List Json) : Option (Json × P) :=
  let p := skipWs p
  match p.peek with
  | some ']' => some (.arr acc.reverse, p.next)
  | _ =>
    match parseValue p with
    | some (v, p) =>
      let p := skipWs p
      match p.peek with
      | some ',' => parseItems p.next (v :: acc)
      | some ']' => some (.arr (v :: acc).reverse, p.next)
      | _ => none
    | none => none

partial def parseMembers (p : P) (acc : List (String × Json)) : Option (Json × P) :=
  let p := skipWs p
  match p.peek with
  | some '}' => some (.obj acc.reverse, p.next)
  | some '"' =>
    match parseStr p.next "" with
    | some (k, p) =>
      let p := skipWs p
      match p.peek with
      | some ':' =>
        match parseValue p.next with
        | some (v, p) =>
          let p := skipWs p
          match p.peek with
          | some ',' => parseMembers p.next ((k, v) :: acc)
          | some '}' => some (.obj ((k, v) :: acc).reverse, p.next)
          | _ => none
        | none => none
      | _ => none
    | none => none
  | _ => none
end

def parse (line : String) : Option Json :=
  (parseValue { s := line.toList.toArray, i := 0 }).map (·.1)

/-! printing -/

def hexDigit (n : Nat) : Char := if n < 10 then Char.ofNat ('0'.toNat + n) else Char.ofNat ('a'.toNat + n - 10)

def escape (s : String) : String :=
  s.foldl (fun acc c =>
    if c = '"' then acc ++ "\\\""
    else if c = '\\' then acc ++ "\\\\"
    else if c.toNat < 32 || c.toNat > 126 then
      let n := c.toNat
      if n < 65536 then
        acc ++ "\\u" ++ String.ofList [hexDigit (n / 4096), hexDigit (n / 256 % 16), hexDigit (n / 16 % 16), hexDigit (n % 16)]
      else acc.push c
    else acc.push c) ""

def ratStr (q : Rat) : String :=
  if q.den = 1 then toString q.num else toString q.num ++ "/" ++ toString q.den

mutual
partial def render : Json → String
  | .null => "null"
  | .bool true => "true"
  | .bool false => "false"
  | .num q => "\"#" ++ ratStr q ++ "\""
  | .str s => "\"" ++ escape s ++ "\""
  | .arr l => "[" ++ ",".intercalate (l.map render) ++ "]"
  | .obj m => "{" ++ ",".intercalate (m.map (fun kv => "\"" ++ escape kv.1 ++ "\":" ++ render kv.2)) ++ "}"
end

/-- Tag the strings of a model document for the wire (`"abc"` → `"$abc"`). -/
partial def tag : Json → Json
  | .str s => .str ("$" ++ s)
  | .arr l => .arr (l.map tag)
  | .obj m => .obj (m.map (fun kv => (kv.1, tag kv.2)))
  | j => j

/-- Strip the tags of a wire document (`"$abc"` → `"abc"`); a tagged special number has no place in
a Histogrammar document and is kept as is (it will be rejected by `decode`). -/
partial def untag : Json → Json
  | .str s => if s.startsWith "$" then .str (s.drop 1).toString else .str s
  | .arr l => .arr (l.map untag)
  | .obj m => .obj (m.map (fun kv => (kv.1, untag kv.2)))
  | j => j

def valOf? : Json → Option Val
  | .num q => some (.fin q)
  | .str "#nan" => some .nan
  | .str "#inf" => some .pinf
  | .str "#-inf" => some .ninf
  | _ => none

def valToWire : Val → Json
  | .fin q => .num q
  | .pinf => .str "#inf"
  | .ninf => .str "#-inf"
  | .nan => .str "#nan"

end Hg.Wire
