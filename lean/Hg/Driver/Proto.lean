/-
  Hg.Driver.Proto — the line protocol: one operation per line, one reply per line (DESIGN §4.1).
  Unverified glue around the model's executable definitions.
-/
import Hg.Driver.Wire
import Hg.Model.Eqv
import Hg.Model.WF
import Hg.Model.Immut
import Hg.Model.Live
import Hg.Model.Spec
import Hg.Model.Shape
import Hg.Model.Fcn
import Hg.Model.Np
import Hg.Model.Access
import Hg.Model.NpHyp
import Hg.Model.Frame
import Hg.Model.Denote
import Hg.Model.CountT

namespace Hg.Proto
open Hg Hg.Wire

abbrev Pool := List (String × Agg)

def Pool.get? (p : Pool) (h : String) : Option Agg := (p.find? (·.1 = h)).map (·.2)
def Pool.set (p : Pool) (h : String) (a : Agg) : Pool := (h, a) :: p.filter (·.1 ≠ h)

def jget? (m : List (String × Json)) (k : String) : Option Json := Json.get? k m

def strOf? : Json → Option String
  | .str s => if s.startsWith "$" then some (s.drop 1).toString else some s
  | _ => none

def natOf? : Json → Option Nat
  | .num q => if q.den = 1 && 0 ≤ q.num then some q.num.toNat else none
  | _ => none

def ratOf? : Json → Option Rat
  | .num q => some q
  | _ => none

def qtyOf? : Json → Option Qty
  | .arr [c, .null] => (natOf? c).map (fun c => ⟨c, none, true⟩)
  | .arr [c, n] => do
      let c ← natOf? c
      let n ← strOf? n
      pure ⟨c, some n, true⟩
  | _ => none

def cellOf? : Json → Option Cell
  | .null => some .none
  | .bool b => some (.bool b)
  | .num q => some (.num (.fin q))
  | .str s =>
    if s.startsWith "$" then some (.str (s.drop 1).toString)
    else match valOf? (.str s) with
      | some v => some (.num v)
      | none => none
  | .arr l => (l.mapM valOf?).map .vec
  | .obj m =>
    match jget? m "f" with
    | some (.str "$raises") => some .raises
    | some (.str "$wrong") => some .wrongType
    | _ => none

def datumOf? : Json → Option Datum
  | .arr l => l.mapM cellOf?
  | _ => none

/-- a bin specification of the dataframe interface: {"k": "sparse", "width", "origin"} … -/
def axisSpecOf? : Json → Option AxisSpec
  | .obj m => do
    let k ← (jget? m "k").bind strOf?
    match k with
    | "sparse" => do
        let w ← (jget? m "width").bind ratOf?
        let o ← (jget? m "origin").bind ratOf?
        pure (.sparse w o)
    | "bin" => do
        let n ← (jget? m "n").bind natOf?
        let l ← (jget? m "low").bind ratOf?
        let h ← (jget? m "high").bind ratOf?
        pure (.bin n l h)
    | "irregular" => match jget? m "edges" with | some (.arr l) => (l.mapM ratOf?).map .irregular | _ => none
    | "central" => match jget? m "centers" with | some (.arr l) => (l.mapM ratOf?).map .central | _ => none
    | "categorize" => some .categorize
    | _ => none
  | _ => none

def binSpecsOf? : Json → Option BinSpecs
  | .obj m => do
    let one ← match jget? m "one" with
      | some (.obj om) => om.mapM (fun kv => (axisSpecOf? kv.2).map (fun s => (kv.1, s)))
      | _ => none
    let many ← match jget? m "many" with
      | some (.obj mm) => mm.mapM (fun kv => match kv.2 with
          | .arr l => (l.mapM (fun (e : Json) => match e with
              | Json.null => some (none : Option AxisSpec)
              | j => (axisSpecOf? j).map some)).map (fun l => (kv.1, l))
          | _ => none)
      | _ => none
    pure ⟨one, many⟩
  | _ => none

def columnOf? : Json → Option Column
  | .obj m => do
    let name ← (jget? m "name").bind strOf?
    let pos ← (jget? m "pos").bind natOf?
    let ty ← (jget? m "ty").bind strOf?
    let ty ← match ty with | "num" => some ColType.num | "time" => some ColType.time | "bool" => some ColType.bool | _ => none
    pure ⟨name, pos, ty⟩
  | _ => none

/-- Build the freshly constructed (empty) aggregator described by a tree spec: the model of the
constructors (`value.zero()` per bin, `.copy()` of the flow arguments). -/
partial def build (j : Json) : Option Agg :=
  match j with
  | .obj m => do
    let k ← (jget? m "k").bind strOf?
    let q : Option Qty := (jget? m "q").bind qtyOf?
    let child (name : String) : Option Agg := (jget? m name).bind build
    match k with
    | "Count" => pure (.node .count 0 .unit none [])
    | "Sum" => do let q ← q; pure (.node (.sum q) 0 (.sum 0) none [])
    | "Average" => do let q ← q; pure (.node (.average q) 0 (.mean .nan) none [])
    | "Deviate" => do let q ← q; pure (.node (.deviate q) 0 (.dev .nan .nan) none [])
    | "Minimize" => do let q ← q; pure (.node (.minimize q) 0 (.ext .nan) none [])
    | "Maximize" => do let q ← q; pure (.node (.maximize q) 0 (.ext .nan) none [])
    | "Bag" => do
        let q ← q
        let r ← (jget? m "range").bind strOf?
        pure (.node (.bag q (parseRange r)) 0 (.bag []) none [])
    | "Bin" => do
        let q ← q
        let n ← (jget? m "n").bind natOf?
        let low ← (jget? m "low").bind ratOf?
        let high ← (jget? m "high").bind ratOf?
        let v ← child "value"
        let u ← child "underflow"
        let o ← child "overflow"
        let nf ← child "nanflow"
        pure (.node (.bin q n low high) 0 .unit none
          ([(.under, u), (.over, o), (.nanflow, nf)] ++ (List.range n).map (fun i => (.pos i, v))))
    | "SparselyBin" => do
        let q ← q
        let w ← (jget? m "width").bind ratOf?
        let o ← (jget? m "origin").bind ratOf?
        let v ← child "value"
        let nf ← child "nanflow"
        pure (.node (.sparse q w o v.typeName v.qtyName) 0 .unit (some v) [(.nanflow, nf)])
    | "CentrallyBin" => do
        let q ← q
        let cs ← match jget? m "centers" with | some (.arr l) => l.mapM ratOf? | _ => none
        let v ← child "value"
        let nf ← child "nanflow"
        pure (.node (.central q) 0 .unit none ((.nanflow, nf) :: cs.map (fun c => (.ctr c, v))))
    | "IrregularlyBin" | "Stack" => do
        let q ← q
        let es ← match jget? m "edges" with | some (.arr l) => l.mapM ratOf? | _ => none
        let v ← child "value"
        let nf ← child "nanflow"
        pure (.node (if k = "Stack" then .stack q else .irregular q) 0 .unit none
          ((.nanflow, nf) :: (.thr .ninf, v) :: es.map (fun e => (.thr (.fin e), v))))
    | "Fraction" => do
        let q ← q
        let v ← child "value"
        pure (.node (.fraction q) 0 .unit none [(.den, v), (.num, v)])
    | "Select" => do
        let q ← q
        let c ← child "cut"
        pure (.node (.select q) 0 .unit none [(.cut, c)])
    | "Categorize" => do
        let q ← q
        let v ← child "value"
        pure (.node (.categorize q v.typeName v.qtyName) 0 .unit (some v) [])
    | "Label" | "UntypedLabel" => do
        let pairs ← match jget? m "pairs" with
          | some (.obj pm) => pm.mapM (fun kv => (build kv.2).map (fun a => (Key.lbl kv.1, a)))
          | _ => none
        pure (.node (if k = "Label" then .label else .untypedLabel) 0 .unit none pairs)
    | "Index" | "Branch" => do
        let vals ← match jget? m "values" with | some (.arr l) => l.mapM build | _ => none
        pure (.node (if k = "Index" then .index else .branch) 0 .unit none
          (vals.zipIdx.map (fun p => (Key.ith p.2, p.1))))
    | _ => none
  | _ => none

partial def shapeOf? : Json → Option Shape
  | .arr [i, .bool c, .arr kids] => do
      let i ← natOf? i
      let ks ← kids.mapM shapeOf?
      pure (.node i c ks)
  | _ => none

partial def shapeJson : Shape → Json
  | .node i c kids => .arr [.num (i : Rat), .bool c, .arr (kids.map shapeJson)]

def faultName : Fault → String
  | .typeErr => "type"
  | .userExc => "user"
  | .container => "container"

def outcomeJson : Outcome → Json
  | .ok => .str "$ok"
  | .raised f => .str ("$raise:" ++ faultName f)

def err (msg : String) : Json := .obj [("error", .str ("$" ++ msg))]

/-- One protocol step. -/
def step (pool : Pool) (cmd : Json) : Pool × Json :=
  match cmd with
  | .arr (.str op :: args) =>
    match op, args with
    | "$new", [h, spec] =>
      match strOf? h, build spec with
      | some h, some a => (pool.set h a, .str "$ok")
      | _, _ => (pool, err "bad new")
    | "$fill", [h, d, w] =>
      match strOf? h, datumOf? d, valOf? w with
      | some h, some d, some w =>
        match pool.get? h with
        | some a => let r := fill a d w; (pool.set h r.1, outcomeJson r.2)
        | none => (pool, err "no handle")
      | _, _, _ => (pool, err "bad fill")
    | "$fills", [h, .arr rows] =>
      match strOf? h with
      | some h =>
        match pool.get? h with
        | some a =>
          let r := rows.foldl (fun (acc : Agg × List Json) row =>
            match row with
            | .arr [d, w] =>
              match datumOf? d, valOf? w with
              | some d, some w => let r := fill acc.1 d w; (r.1, outcomeJson r.2 :: acc.2)
              | _, _ => (acc.1, err "bad row" :: acc.2)
            | _ => (acc.1, err "bad row" :: acc.2)) (a, [])
          (pool.set h r.1, .arr r.2.reverse)
        | none => (pool, err "no handle")
      | none => (pool, err "bad fills")
    | "$fillnp", [h, .arr rows] =>
      match strOf? h with
      | some h =>
        match pool.get? h, rows.mapM (fun row => match row with
            | .arr [d, w] => (datumOf? d).bind (fun d => (valOf? w).map (fun w => (d, w)))
            | _ => none) with
        | some a, some s =>
          match fillNp a (s.map (·.1)) (s.map (·.2)) with
          | some a' => (pool.set h a', .str "$ok")
          | none => (pool, .str "$raise:type")
        | _, _ => (pool, err "bad fillnp")
      | none => (pool, err "bad fillnp")
    | "$mkhist", [h, mode, bs, feat, .arr rows] =>
      -- the dataframe interface: histogram of one feature (mode "np": make_histograms, "direct": row by row)
      match strOf? h, strOf? mode, binSpecsOf? bs, (match feat with | .arr l => l.mapM columnOf? | _ => none), rows.mapM datumOf? with
      | some h, some mode, some bs, some feature, some rows =>
        match (if mode = "direct" then directHist bs feature rows else makeHist bs feature rows) with
        | some a => (pool.set h a, .str "$ok")
        | none => (pool, .str "$raise:type")
      | _, _, _, _, _ => (pool, err "bad mkhist")
    | "$framehyp", [bs, feat, .arr rows] =>
      -- executable hypotheses of the C14 theorems on a real frame: the axes resolve, are valid, every column evaluates
      match binSpecsOf? bs, (match feat with | .arr l => l.mapM columnOf? | _ => none), rows.mapM datumOf? with
      | some bs, some feature, some rows =>
        match axesOf bs feature with
        | some axes => (pool, .bool (axesValid axes && qtysOk (mkTree axes) rows))
        | none => (pool, .bool false)
      | _, _, _ => (pool, err "bad framehyp")
    | "$denote", [h, z, .arr rows] =>
      -- the closed-form specification (Hg.Model.Denote) of a stream on an empty tree
      match strOf? h, (strOf? z).bind pool.get?, rows.mapM (fun row => match row with
          | .arr [d, w] => (datumOf? d).bind (fun d => (valOf? w).map (fun w => (d, w)))
          | _ => none) with
      | some h, some a, some s => (pool.set h (denote a s), .str "$ok")
      | _, _, _ => (pool, err "bad denote")
    | "$view", [h, what, lo, hi] =>
      let optRat (j : Json) : Option (Option Rat) := match j with | .null => some none | .num q => some (some q) | _ => none
      match (strOf? h).bind pool.get?, strOf? what, optRat lo, optRat hi with
      | some (.node k _ _ _ kids), some what, some lo, some hi =>
        let nums (l : List Rat) : Json := .arr (l.map Json.num)
        let vals (l : List Val) : Json := .arr (l.map valToWire)
        match k, what with
        | .bin _ n L H, "numbins" => (pool, .num (Bin.numBins n L H lo hi : Nat))
        | .bin _ n L H, "edges" => (pool, nums (Bin.edges n L H lo hi))
        | .bin _ n L H, "centers" => (pool, nums (Bin.centers n L H lo hi))
        | .bin _ n L H, "entries" => (pool, vals (Bin.entriesIn n L H kids lo hi))
        | .sparse _ w o _ _, "numbins" => (pool, .num ((Sparse.numBins w o kids lo hi : Int) : Rat))
        | .sparse _ w o _ _, "edges" => (pool, nums (Sparse.edges w o kids lo hi))
        | .sparse _ w o _ _, "entries" => (pool, vals (Sparse.entriesIn w o kids lo hi))
        | .central _, "centers" => (pool, nums (Central.centersIn (centersOf (keysOf kids)) lo hi))
        | .central _, "entries" => (pool, vals (Central.entriesIn kids (centersOf (keysOf kids)) lo hi))
        | .irregular _, "entries" => (pool, vals (Irregular.entriesIn kids (thresholdsOf (keysOf kids)) lo hi))
        | _, _ => (pool, err "no such view")
      | _, _, _, _ => (pool, err "bad view")
    | "$viewat", [h, x] =>
      match (strOf? h).bind pool.get?, ratOf? x with
      | some (.node k _ _ _ kids), some x =>
        match k with
        | .bin _ n L H => (pool, valToWire (Bin.entryAt n L H kids x))
        | .sparse _ w o _ _ => (pool, valToWire (Sparse.entryAt w o kids x))
        | .irregular _ => (pool, valToWire (Irregular.entryAt kids (thresholdsOf (keysOf kids)) x))
        | .central _ =>
          (pool, valToWire (((binEntriesAll kids)[Central.index true (.fin x) (centersOf (keysOf kids))]?).getD 0))
        | _ => (pool, err "no such view")
      | _, _ => (pool, err "bad viewat")
    | "$nphyp", [h, .arr rows] =>
      -- hypotheses of the C03 theorems on a batch: qtysOk, noNanForSums, nonNegW, hasTmpl
      match (strOf? h).bind pool.get?, rows.mapM (fun row => match row with
          | .arr [d, w] => (datumOf? d).bind (fun d => (valOf? w).map (fun w => (d, w)))
          | _ => none) with
      | some a, some s =>
        (pool, .arr [.bool (qtysOk a (s.map (·.1))), .bool (noNanForSums a (s.map (·.1))), .bool (nonNegW (s.map (·.2))), .bool (hasTmpl a)])
      | _, _ => (pool, err "bad nphyp")
    | "$dup", [hn, h] =>
      -- a clone with identical content (the model of a pickle round trip)
      match strOf? hn, (strOf? h).bind pool.get? with
      | some hn, some a => (pool.set hn a, .str "$ok")
      | _, _ => (pool, err "bad dup")
    | "$prune", [hn, h] =>
      match strOf? hn, (strOf? h).bind pool.get? with
      | some hn, some a => (pool.set hn (prune a), .str "$ok")
      | _, _ => (pool, err "bad prune")
    | "$add", [hn, h1, h2] =>
      match strOf? hn, (strOf? h1).bind pool.get?, (strOf? h2).bind pool.get? with
      | some hn, some a, some b =>
        match add a b with
        | some c => (pool.set hn c, .str "$ok")
        | none => (pool, .str "$raise:container")
      | _, _, _ => (pool, err "bad add")
    | "$iadd", [h1, h2] =>
      match strOf? h1, (strOf? h1).bind pool.get?, (strOf? h2).bind pool.get? with
      | some h1, some a, some b =>
        -- the code-order model of `+=`; it must agree with `+` whenever the operands are compatible
        let r := iaddCode a b
        (pool.set h1 r.1, if r.2 then .str "$ok" else .str "$raise:container")
      | _, _, _ => (pool, err "bad iadd")
    | "$mul", [hn, h, f] =>
      match strOf? hn, (strOf? h).bind pool.get?, valOf? f with
      | some hn, some a, some f => (pool.set hn (mul a f), .str "$ok")
      | _, _, _ => (pool, err "bad mul")
    | "$zero", [hn, h] =>
      match strOf? hn, (strOf? h).bind pool.get? with
      | some hn, some a => (pool.set hn (zero a), .str "$ok")
      | _, _ => (pool, err "bad zero")
    | "$copy", [hn, h] =>
      match strOf? hn, (strOf? h).bind pool.get? with
      | some hn, some a =>
        match copy a with
        | some c => (pool.set hn c, .str "$ok")
        | none => (pool, .str "$raise:container")
      | _, _ => (pool, err "bad copy")
    | "$json", [h] =>
      match (strOf? h).bind pool.get? with
      | some a => (pool, tag (encode a))
      | none => (pool, err "no handle")
    | "$load", [hn, doc] =>
      match strOf? hn with
      | some hn =>
        match decode (untag doc) with
        | some a => (pool.set hn a, .str "$ok")
        | none => (pool, .str "$raise:json")
      | none => (pool, err "bad load")
    | "$eq", [h1, h2, rel, tol] =>
      match (strOf? h1).bind pool.get?, (strOf? h2).bind pool.get?, ratOf? rel, ratOf? tol with
      | some a, some b, some rel, some tol => (pool, .bool (eqv rel tol a b))
      | _, _, _, _ => (pool, err "bad eq")
    | "$good", [h] =>
      match (strOf? h).bind pool.get? with
      | some a => (pool, .bool (good a))
      | none => (pool, err "no handle")
    | "$iszero", [h] =>
      match (strOf? h).bind pool.get? with
      | some a => (pool, .bool (isZeroTree a))
      | none => (pool, err "no handle")
    | "$samebase", [h1, h2] =>
      match (strOf? h1).bind pool.get?, (strOf? h2).bind pool.get? with
      | some a, some b => (pool, .bool (sameBase a b))
      | _, _ => (pool, err "bad samebase")
    | "$hastmpl", [h] =>
      match (strOf? h).bind pool.get? with
      | some a => (pool, .bool (hasTmpl a))
      | none => (pool, err "no handle")
    | "$nobins", [h] =>
      match (strOf? h).bind pool.get? with
      | some a => (pool, .bool (noBins a))
      | none => (pool, err "no handle")
    | "$wrap", [b, .arr ops] =>
      match natOf? b, ops.mapM (fun o => match strOf? o with
          | some "cached" => some WOp.cached
          | some "serializable" => some WOp.serializable
          | some s => if s.startsWith "named:" then some (WOp.named (s.drop 6).toString) else none
          | none => none) with
      | some b, some ops =>
        match (Fcn.ofBase b).applyAll ops with
        | some f => (pool, .arr [match f.name with | some n => .str ("$" ++ n) | none => .null, .bool f.cached])
        | none => (pool, .str "$raise")
      | _, _ => (pool, err "bad wrap")
    | "$cachedrun", [.arr calls] =>
      match calls.mapM natOf? with
      | some cs =>
        -- which calls evaluate the underlying function (a miss) with g := fun a => a
        let r := cs.foldl (fun (acc : Memo × List Json) a =>
          let hit : Bool := match acc.1 with | some (a', _) => decide (a' = a) | none => false
          ((callCached (fun x => x) acc.1 a).2, .bool hit :: acc.2)) (none, [])
        (pool, .arr r.2.reverse)
      | none => (pool, err "bad cachedrun")
    | "$countt", [.arr cs, .arr ws, .arr chunks, n] =>
      -- Count(transform = polynomial cs): per-row fill, vectorised fill with a weight array, per-chunk fills,
      -- and the scalar-weight form for a batch of n rows of the first weight
      match cs.mapM ratOf?, ws.mapM valOf?, chunks.mapM (fun c => match c with | .arr l => l.mapM valOf? | _ => none), natOf? n with
      | some cs, some ws, some chunks, some n =>
        let f : Val → Rat := fun w => match w with | .fin q => CountT.poly cs q | _ => 0
        let num (q : Rat) : Json := valToWire (.fin q)
        (pool, .arr [num (CountT.fillAll Val.pos f 0 ws), num (CountT.fillNp Val.pos f 0 ws),
                     .arr (chunks.map (fun c => num (CountT.fillAll Val.pos f 0 c))),
                     match ws with
                     | w :: _ => .arr [num (CountT.fillNpScalar Val.pos f 0 w n), num (CountT.fillAll Val.pos f 0 (List.replicate n w))]
                     | [] => .null])
      | _, _, _, _ => (pool, err "bad countt")
    | "$checkcross", [sh] =>
      match shapeOf? sh with
      | some t => let r := Shape.checkCross t; (pool, .arr [.bool r.2, shapeJson r.1])
      | none => (pool, err "bad shape")
    | "$goodrun", [h, .arr rows] =>
      match (strOf? h).bind pool.get? with
      | some a =>
        match rows.mapM (fun row => match row with
            | .arr [d, w] => (datumOf? d).bind (fun d => (valOf? w).map (fun w => (d, w)))
            | _ => none) with
        | some s => (pool, .bool (goodRun a s))
        | none => (pool, err "bad rows")
      | none => (pool, err "no handle")
    | "$liveok", [h] =>
      match (strOf? h).bind pool.get? with
      | some a => (pool, .bool (liveOk a))
      | none => (pool, err "no handle")
    | "$inv", [h] =>
      match (strOf? h).bind pool.get? with
      | some a => (pool, .bool (inv a))
      | none => (pool, err "no handle")
    | "$singlepath", [h] =>
      match (strOf? h).bind pool.get? with
      | some a => (pool, .bool (singlePath a))
      | none => (pool, err "no handle")
    | "$eqcontent", [h1, h2] =>
      match (strOf? h1).bind pool.get?, (strOf? h2).bind pool.get? with
      | some a, some b => (pool, .bool (decide (content a = content b)))
      | _, _ => (pool, err "bad eqcontent")
    | "$knownctype", [h] =>
      match (strOf? h).bind pool.get? with
      | some a => (pool, .bool (knownCtype a))
      | none => (pool, err "no handle")
    | "$uniform", [h] =>
      match (strOf? h).bind pool.get? with
      | some a => (pool, .bool (uniform a))
      | none => (pool, err "no handle")
    | "$uniformt", [h] =>
      match (strOf? h).bind pool.get? with
      | some a => (pool, .bool (uniformT a))
      | none => (pool, err "no handle")
    | "$immut", [hn, h] =>
      match strOf? hn, (strOf? h).bind pool.get? with
      | some hn, some a => (pool.set hn (immut a), .str "$ok")
      | _, _ => (pool, err "bad immut")
    | "$same", [h1, h2] =>
      match (strOf? h1).bind pool.get?, (strOf? h2).bind pool.get? with
      | some a, some b => (pool, .bool (decide (a = b)))
      | _, _ => (pool, err "bad same")
    | "$compat", [h1, h2] =>
      match (strOf? h1).bind pool.get?, (strOf? h2).bind pool.get? with
      | some a, some b => (pool, .bool (compat a b))
      | _, _ => (pool, err "bad compat")
    | "$drop", [h] =>
      match strOf? h with
      | some h => (pool.filter (·.1 ≠ h), .str "$ok")
      | none => (pool, err "bad drop")
    | "$reset", [] => ([], .str "$ok")
    | _, _ => (pool, err ("unknown op " ++ op))
  | _ => (pool, err "not a command")

end Hg.Proto
