import Hg.Model.Val
import Hg.Model.Agg
import Hg.Model.Leaf
import Hg.Model.Route
import Hg.Model.Ops
