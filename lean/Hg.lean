-- This module serves as the root of the `Hg` library.
-- Import modules here that should be built as part of the library.
import Hg.Basic
