import Hg.Props.C09
#print axioms Hg.C09.eqv_iff_content
#print axioms Hg.C09.eqv_refl
#print axioms Hg.C09.eqv_symm
#print axioms Hg.C09.eqv_trans
#print axioms Hg.C09.eqv_mono_tol
#print axioms Hg.C09.eqv_copy
#print axioms Hg.C09.eqv_false_of_entries
#print axioms Hg.C09.eqv_false_of_kids_length
#print axioms Hg.C09.eqv_child
