import Hg.Props.C06
#print axioms Hg.C06.noninterference
#print axioms Hg.C06.disjoint_noninterference
