import Hg.Props.C01
#print axioms Hg.C01.add_zero_right
#print axioms Hg.C01.add_zero_left
#print axioms Hg.C01.add_comm
#print axioms Hg.C01.add_assoc
#print axioms Hg.C01.fill_add_hom
#print axioms Hg.C01.fillAll_append
#print axioms Hg.C01.partition_invariant
