import Hg.Props.C12
#print axioms Hg.C12.fill_fault_rollback
#print axioms Hg.C12.skip_on_fault
