import Hg.Props.C16
#print axioms Hg.C16.shared_rejected
#print axioms Hg.C16.shared_rejected_again
#print axioms Hg.C16.linear_accepted
#print axioms Hg.C16.walk_some_iff
