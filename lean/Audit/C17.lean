import Hg.Props.C17
#print axioms Hg.C17.wrappers_commute
#print axioms Hg.C17.named_twice_raises
#print axioms Hg.C17.cached_transparent
#print axioms Hg.C17.cached_idem
