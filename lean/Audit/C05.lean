import Hg.Props.C05
#print axioms Hg.C05.inv_zero
#print axioms Hg.C05.inv_fill
#print axioms Hg.C05.inv_add
#print axioms Hg.C05.inv_scale
#print axioms Hg.C05.inv_fillAll
#print axioms Hg.C05.binIndex_lt
