import Hg.Props.C02
#print axioms Hg.C02.fill_gate
#print axioms Hg.C02.fillAll_perm
#print axioms Hg.C02.fill_ok_indep
#print axioms Hg.C02.routeBin_spec
#print axioms Hg.C02.centralPick_midpoint
