import Hg.Props.C04
#print axioms Hg.C04.decode_encode
#print axioms Hg.C04.decode_encode_live
#print axioms Hg.C04.encode_immut
#print axioms Hg.C04.encode_noNull
#print axioms Hg.C04.decode_encode_immut
#print axioms Hg.C04.good_immut
#print axioms Hg.C04.zero_immut
#print axioms Hg.C04.mul_immut
#print axioms Hg.C04.add_immut
#print axioms Hg.C04.copy_immut
