import Hg.Props.C08
#print axioms Hg.C08.mul_nonpos
#print axioms Hg.C08.mul_eq_refill
#print axioms Hg.C08.scale_one
#print axioms Hg.C08.scale_scale
#print axioms Hg.C08.scale_two_eq_add_self
#print axioms Hg.C08.scale_add
#print axioms Hg.C08.good_scale
#print axioms Hg.C08.scale_fill
