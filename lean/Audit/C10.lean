import Hg.Props.C10
#print axioms Hg.C10.mismatch_rejected
#print axioms Hg.C10.add_some_iff_compat
#print axioms Hg.C10.add_none_of_typeName
#print axioms Hg.C10.iadd_rejects
#print axioms Hg.C10.iadd_rejects_unchanged_partial
#print axioms Hg.C10.iadd_nested_mismatch_mutates
