import Hg.Props.C07
#print axioms Hg.C07.iadd_eq_add
#print axioms Hg.C07.iadd_eq_add_sameBase
