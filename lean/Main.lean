import Hg.Driver.Proto
open Hg Hg.Proto Hg.Wire

partial def loop (inp : IO.FS.Stream) (out : IO.FS.Stream) (pool : Pool) : IO Unit := do
  let line ← inp.getLine
  if line.isEmpty then return ()
  let t := line.trimAscii.toString
  if t.isEmpty then
    loop inp out pool
  else
    match parse t with
    | none =>
      out.putStrLn (render (err "parse"))
      out.flush
      loop inp out pool
    | some cmd =>
      let (pool', reply) := step pool cmd
      out.putStrLn (render reply)
      out.flush
      loop inp out pool'

def main : IO Unit := do
  loop (← IO.getStdin) (← IO.getStdout) []
