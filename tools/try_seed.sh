#!/bin/bash
# usage: try_seed.sh <seed dir name e.g. C01_A> <check id e.g. C01> [extra check args]
# applies the seeded change to /repo, runs the check, and reverts /repo straight afterwards
S="$1"; C="$2"; shift 2
cd /verif
git -C /repo apply "/verif/seeded/$S/patch.diff" || { echo "apply failed"; exit 3; }
./check "$C" "$@" 2>&1 | tail -6
rc=${PIPESTATUS[0]}
git -C /repo checkout -- .
echo "[$S vs $C] exit=$rc"
