#!/bin/bash
# usage: validate_seed.sh <dir with patch.diff + demo.py> <result file>
# Confirms in a scratch worktree of /repo: patch applies; demo fails with it and passes without;
# the pinned test suite still passes (the 79 baseline tests).
set -u
D="$1"; OUT="$2"
WT=$(mktemp -d /tmp/seedval.XXXXXX)
git -C /repo worktree add -q --detach "$WT" HEAD || { echo "worktree failed" > "$OUT"; exit 2; }
res="{"
cd "$WT"
PYTHONPATH="$WT" /venv/bin/python "$D/demo.py" > "$WT/.demo_clean.log" 2>&1; rc_clean=$?
if git apply "$D/patch.diff" 2> "$WT/.apply.log"; then applied=true; else applied=false; fi
PYTHONPATH="$WT" /venv/bin/python "$D/demo.py" > "$WT/.demo_mut.log" 2>&1; rc_mut=$?
/venv/bin/python -m pytest -q -p no:cacheprovider --timeout=900 --continue-on-collection-errors --junitxml="$WT/.junit.xml" > "$WT/.pytest.log" 2>&1
missing=$(/venv/bin/python - "$WT/.junit.xml" <<'PY'
import json, sys, xml.etree.ElementTree as ET
base = json.load(open('/root/.vp/BASELINE.json'))
passed=set()
for tc in ET.parse(sys.argv[1]).iter('testcase'):
    if not any(c.tag in ('failure','error','skipped') for c in tc): passed.add(tc.get('classname')+'::'+tc.get('name'))
print(len([x for x in base['stable_pass'] if x not in passed]))
PY
)
echo "{\"applied\": $applied, \"demo_rc_clean\": $rc_clean, \"demo_rc_mutated\": $rc_mut, \"baseline_tests_missing\": $missing}" > "$OUT"
cd /
git -C /repo worktree remove --force "$WT"
