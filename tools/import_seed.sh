#!/bin/bash
# usage: import_seed.sh <src dir with patch.diff demo.py meta.json> <name e.g. C01_C> <check id>
SRC="$1"; NAME="$2"; CID="$3"
D=/verif/seeded/$NAME
mkdir -p "$D" && cp "$SRC/patch.diff" "$SRC/demo.py" "$SRC/meta.json" "$D/"
/verif/tools/validate_seed.sh "$D" "$D/.val.json" >/dev/null 2>&1
cat "$D/.val.json"
/venv/bin/python - "$D" <<'PY'
import json,sys
d=sys.argv[1]
m=json.load(open(d+'/meta.json')); v=json.load(open(d+'/.val.json'))
m['origin']="written by an independent sub-agent given only the property text and a scratch worktree of /repo (second round)"
m['confirmed_by']="tools/validate_seed.sh in a fresh scratch worktree: git apply patch.diff; demo.py exit 1 with the patch, exit 0 without; pinned pytest suite: all 79 baseline tests still pass"
m['validation']=v
json.dump(m,open(d+'/meta.json','w'),indent=1)
PY
rm -f "$D/.val.json"
/verif/tools/try_seed.sh "$NAME" "$CID" --tier quick | tail -2
