#!/bin/bash
# usage: run_all.sh [quick|thorough] [seed]   — every property's check on the current /repo; prints a summary line
T="${1:-quick}"; S="${2:-0}"; bad=""
cd "$(dirname "$0")/.."
for i in 01 02 03 04 05 06 07 08 09 10 11 12 13 14 15 16 17; do
  out=$(VERIF_SEED=$S ./check C$i --tier "$T" 2>&1); rc=$?
  echo "$out" | grep -v KNOWN-FINDING | grep "tier=" | cut -c1-120
  if [ $rc -ne 0 ]; then bad="$bad C$i($rc)"; echo "$out" | grep -v KNOWN-FINDING | tail -4 | cut -c1-400; fi
done
if [ -z "$bad" ]; then echo "ALL OK tier=$T seed=$S"; else echo "FAILED:$bad"; fi
