#!/venv/bin/python
"""Apply every seeded change in /verif/seeded to /repo in turn, run the property's quick check, undo the change
straight afterwards, and record the outcome in seeded/RESULTS.json.  With --corpus the minimised failing case of each
detection is stored under corpus/<property>/ (these run first in every later check)."""
import json
import os
import re
import subprocess
import sys

VERIF = os.path.dirname(os.path.dirname(os.path.abspath(__file__)))
only = [a for a in sys.argv[1:] if not a.startswith("--")]
corpus = "--corpus" in sys.argv
res = {}
for name in sorted(os.listdir(os.path.join(VERIF, "seeded"))):
    d = os.path.join(VERIF, "seeded", name)
    if not os.path.isdir(d) or not re.match(r"C\d\d_", name) or (only and name not in only):
        continue
    pid = name.split("_")[0]
    subprocess.run(["git", "-C", "/repo", "checkout", "--", "."], check=True)
    if subprocess.run(["git", "-C", "/repo", "apply", os.path.join(d, "patch.diff")]).returncode != 0:
        res[name] = {"applied": False}
        continue
    try:
        p = subprocess.run([os.path.join(VERIF, "check"), pid, "--tier", "quick"], capture_output=True, text=True, timeout=1800)
        out = p.stdout + p.stderr
        m = re.search(r"VIOLATION property=%s replay=(\S+)( no-failing-input-found)?" % pid, out)
        r = {"applied": True, "exit": p.returncode, "violation": bool(m), "concrete_input": bool(m and not m.group(2))}
        if m:
            rp = os.path.join(VERIF, m.group(1))
            if os.path.exists(rp):
                rep = json.load(open(rp))
                r["what"] = (rep.get("violations") or [json.dumps(rep.get("no_longer_checks") or rep.get("correspondence"))[:300]])[0][:400]
                if corpus and rep.get("case") and not m.group(2):
                    cdir = os.path.join(VERIF, "corpus", pid)
                    os.makedirs(cdir, exist_ok=True)
                    json.dump({"origin": "minimised failing case found when seeded change %s was applied" % name, "case": rep["case"]},
                              open(os.path.join(cdir, name + ".json"), "w"), indent=1)
        res[name] = r
    finally:
        subprocess.run(["git", "-C", "/repo", "checkout", "--", "."], check=True)
    print(name, res[name].get("exit"), "concrete" if res[name].get("concrete_input") else "", flush=True)
path = os.path.join(VERIF, "seeded", "RESULTS.json")
old = json.load(open(path)) if os.path.exists(path) and only else {}
old.update(res)
json.dump(old, open(path, "w"), indent=1, sort_keys=True)
