#!/bin/bash
# usage: suite.sh <tree>  — runs the pinned test suite in <tree> and prints the baseline tests that no longer pass
T="$1"
cd "$T" && /venv/bin/python -m pytest -q -p no:cacheprovider --timeout=900 --continue-on-collection-errors --junitxml="$T/.junit.xml" > "$T/.pytest.log" 2>&1
/venv/bin/python - "$T/.junit.xml" <<'PY'
import json, sys, xml.etree.ElementTree as ET
base = json.load(open('/root/.vp/BASELINE.json'))
passed=set()
for tc in ET.parse(sys.argv[1]).iter('testcase'):
    if not any(c.tag in ('failure','error','skipped') for c in tc): passed.add(tc.get('classname')+'::'+tc.get('name'))
print("missing:", [x for x in base['stable_pass'] if x not in passed])
PY
rm -f "$T/.junit.xml" "$T/.pytest.log"
