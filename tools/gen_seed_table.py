#!/usr/bin/env python3
"""Fill the @SEED_TABLE@ placeholder of DESIGN.md (or refresh the table between the markers) from seeded/*/meta.json and seeded/RESULTS.json."""
import json, os, re
V = os.path.dirname(os.path.dirname(os.path.abspath(__file__)))
res = json.load(open(os.path.join(V, "seeded", "RESULTS.json")))
rows = ["<!-- seed-table:begin -->", "| change | where / what | caught by | how |", "|---|---|---|---|"]
for name in sorted(os.listdir(os.path.join(V, "seeded"))):
    d = os.path.join(V, "seeded", name)
    if not os.path.isdir(d) or not re.match(r"C\d\d_", name):
        continue
    m = json.load(open(os.path.join(d, "meta.json")))
    r = res.get(name, {})
    summ = re.sub(r"\s+", " ", m["summary"]).replace("|", "/")
    summ = summ[:230] + ("…" if len(summ) > 230 else "")
    how = "not caught" if not r.get("violation") else ("concrete replay" if r.get("concrete_input") else "broken obligation/correspondence, no-failing-input-found")
    what = re.sub(r"\s+", " ", (r.get("what") or "")).replace("|", "/")[:160]
    rows.append("| %s | %s | `./check %s` | %s%s |" % (name, summ, name.split("_")[0], how, (": " + what) if what else ""))
rows.append("<!-- seed-table:end -->")
table = "\n".join(rows)
p = os.path.join(V, "DESIGN.md")
s = open(p).read()
if "@SEED_TABLE@" in s:
    s = s.replace("@SEED_TABLE@", table)
else:
    s = re.sub(r"<!-- seed-table:begin -->.*?<!-- seed-table:end -->", lambda _: table, s, flags=re.S)
open(p, "w").write(s)
print(len(rows) - 4, "rows")
