#!/venv/bin/python
"""Regenerate /verif/MANIFEST.json from the property modules (harness/props/cXX.py)."""
import importlib
import json
import os
import sys

VERIF = os.path.dirname(os.path.dirname(os.path.abspath(__file__)))
sys.path.insert(0, os.path.join(VERIF, "harness"))
os.environ.setdefault("PYTHONWARNINGS", "ignore")

props = [json.loads(l) for l in open(os.path.join(VERIF, "properties.jsonl"))]
checks, na = [], []
for p in props:
    pid = p["id"]
    try:
        m = importlib.import_module("props." + pid.lower())
    except ModuleNotFoundError as e:
        if e.name != "props." + pid.lower():
            raise SystemExit("run with /venv/bin/python (cannot import %s)" % e.name)
        na.append({"property_id": pid, "reason": "check not built yet in this commit (model and harness under construction)"})
        continue
    if not getattr(m, "THEOREMS", []):
        na.append({"property_id": pid, "reason": "correspondence and oracle exist but the Lean theorems for this property are not merged yet; not claimed until they are"})
        continue
    checks.append({
        "property_id": pid,
        "quick_cmd": "./check %s --tier quick" % pid,
        "thorough_cmd": "./check %s --tier thorough" % pid,
        "evidence_file": "evidence/%s.json" % pid,
        "replay_cmd_template": "./check %s --replay {path}" % pid,
        "engine": "lean4-proof+correspondence",
        "level_claimed": {"category": m.LEVEL, "text": m.LEVEL_TEXT, "design_ref": "DESIGN.md §6 " + pid},
        "level_note": m.LEVEL_NOTE,
        "technique": m.TECHNIQUE,
    })
man = {
    "version": 1,
    "setup_cmd": "cd lean && lake build Hg hgdriver",
    "hooks": {"guard": "HISTOGRAMMAR_VERIF", "enable": "no hooks: every observation (toJson, public attributes, object identity) is available from outside; checks import histogrammar from /repo's working tree (HG_REPO overrides the path)",
              "baseline_off_cmd": "cd /repo && /venv/bin/python -m pytest -ra -q -p no:cacheprovider --timeout=900 --continue-on-collection-errors",
              "source_commits": [], "add_only": True},
    "engines": [{"name": "lean4-proof+correspondence", "path": "lean/ + harness/", "serves_properties": [c["property_id"] for c in checks],
                 "kind_free_text": "Lean 4 theorems over a hand-written executable model (lean/Hg), tied to /repo on every run by a differential correspondence run (harness/, compiled driver hgdriver) plus an implementation-level oracle used as failing-input search"}],
    "checks": checks,
    "not_applicable": na,
    "notes": "Lean 4 proof + correspondence; see DESIGN.md. Exit codes: 0 held, 1 VIOLATION line printed, 2 infrastructure error.",
}
json.dump(man, open(os.path.join(VERIF, "MANIFEST.json"), "w"), indent=1)
print("claimed:", [c["property_id"] for c in checks], "not claimed:", [n["property_id"] for n in na])
