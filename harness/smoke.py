import random, sys, json, traceback
import gen, execs
from execs import ModelExec, run_history

def rand_history(rng):
    spec = gen.gen_spec(rng, rng.randint(0, 3))
    ops = [("new", "a", spec), ("new", "b", spec)]
    fr = rng.choice([0.0, 0.0, 0.15])
    sa = gen.gen_stream(rng, spec, rng.randint(0, 8), fault_rate=fr)
    sb = gen.gen_stream(rng, spec, rng.randint(0, 8), fault_rate=fr)
    ops.append(("fills", "a", sa))
    ops.append(("fills", "b", sb))
    ops.append(("add", "c", "a", "b"))
    ops.append(("mul", "d", "a", rng.choice([2.0, 0.5, 0.0, -1.0, 3.0, float("nan")])))
    ops.append(("zero", "z", "a"))
    ops.append(("copy", "e", "b"))
    ops.append(("iadd", "a", "b"))
    ops.append(("eq", "a", "c", 0, 0))
    ops.append(("eq", "e", "b", 0, 0))
    ops.append(("roundtrip", "r", "c"))
    ops.append(("eq", "r", "c", 0, 0))
    ops.append(("add", "rr", "r", "a"))
    ops.append(("add", "rr2", "a", "r"))
    ops.append(("zero", "rz", "r"))
    ops.append(("mul", "rm", "r", 2.0))
    ops.append(("copy", "rc", "r"))
    ops.append(("fills", "rr2", sa[:2]))
    ops.append(("fills", "r", sa[:1]))
    return ops

def main():
    seed = int(sys.argv[1]) if len(sys.argv) > 1 else 0
    n = int(sys.argv[2]) if len(sys.argv) > 2 else 200
    m = ModelExec()
    bad = 0
    for i in range(n):
        rng = random.Random(seed * 1000003 + i)
        ops = rand_history(rng)
        try:
            d, py = run_history(ops, m)
        except Exception as e:
            traceback.print_exc()
            print("EXC", i, json.dumps(ops[0][2]))
            bad += 1
            if bad > 5: break
            m = ModelExec()
            continue
        if d:
            bad += 1
            print("DIVERGE", i, d["what"][:300], "| op:", d["op"][:200])
            print("   spec:", json.dumps(ops[0][2])[:600])
            if bad > 8: break
    print("done", n, "bad", bad)
main()
