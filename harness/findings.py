"""Witness replays of the known findings listed in /verif/known_findings.json (DESIGN §9).
Each function runs the recorded witness on the real library and returns True iff the defect is
still present.  The file of findings is never written at run time."""
import gen  # noqa: F401  (puts /repo on sys.path)
import histogrammar as hg
from histogrammar.defs import Factory


def q(col=0):
    return lambda d, col=col: d[col] if isinstance(d, (list, tuple)) else d


def bool_category_keys_become_strings():
    """C04: Categorize over a bool quantity keeps bool keys; a JSON reload turns them into strings, so
    reloaded + live splits one category in two and toJson silently drops one of them"""
    c = hg.Categorize(lambda d: d)
    c.fill(True)
    c.fill(True)
    r = Factory.fromJson(c.toJson())
    s = r + c
    return s.toJson()["data"]["bins"] != (c + c).toJson()["data"]["bins"]


def nested_iadd_mismatch_mutates_left():
    """C10: container __iadd__ adds entries before recursing, so a mismatch below the root raises
    after the left operand has been changed"""
    a = hg.Label(a=hg.Count())
    b = hg.Label(a=hg.Sum(lambda d: d))
    a.fill(1.0)
    b.fill(1.0)
    before = a.toJson()
    try:
        a += b
    except Exception:  # noqa: BLE001
        return a.toJson() != before
    return True
