"""Witness replays of the known findings listed in /verif/known_findings.json (DESIGN §9).
Each function runs the recorded witness on the real library and returns True iff the defect is
still present.  The file of findings is never written at run time."""
import gen  # noqa: F401  (puts /repo on sys.path)
import histogrammar as hg
from histogrammar.defs import Factory


def q(col=0):
    return lambda d, col=col: d[col] if isinstance(d, (list, tuple)) else d


def bool_category_keys_become_strings():
    """C04: Categorize over a bool quantity keeps bool keys; a JSON reload turns them into strings, so
    reloaded + live splits one category in two and toJson silently drops one of them"""
    c = hg.Categorize(lambda d: d)
    c.fill(True)
    c.fill(True)
    r = Factory.fromJson(c.toJson())
    s = r + c
    return s.toJson()["data"]["bins"] != (c + c).toJson()["data"]["bins"]


def nested_iadd_mismatch_mutates_left():
    """C10: container __iadd__ adds entries before recursing, so a mismatch below the root raises
    after the left operand has been changed"""
    a = hg.Label(a=hg.Count())
    b = hg.Label(a=hg.Sum(lambda d: d))
    a.fill(1.0)
    b.fill(1.0)
    before = a.toJson()
    try:
        a += b
    except Exception:  # noqa: BLE001
        return a.toJson() != before
    return True


def _accepts(doc):
    try:
        return Factory.fromJson(doc)
    except Exception:  # noqa: BLE001
        return None


def header_extra_key_accepted():
    """C15: Factory.fromJson only checks that type/data/version are present"""
    return _accepts({"type": "Count", "data": 1.0, "version": "1.1", "extra": 5}) is not None


def bag_value_type_unchecked():
    """C15: the value of a Bag entry is not checked against the range; the loaded Bag cannot be serialised"""
    h = _accepts({"type": "Bag", "data": {"entries": 2.0, "values": [{"w": 1.0, "v": "zz"}, {"w": 1.0, "v": 3.0}], "range": "N"},
                  "version": "1.1"})
    if h is None:
        return False
    try:
        h.toJson()
        return True   # accepted at all: still the finding
    except Exception:  # noqa: BLE001
        return True


def bag_duplicate_value_last_wins():
    h = _accepts({"type": "Bag", "data": {"entries": 2.0, "values": [{"w": 1.0, "v": 3.0}, {"w": 5.0, "v": 3.0}], "range": "N"},
                  "version": "1.1"})
    return h is not None and len(h.toJson()["data"]["values"]) == 1


def optional_name_key_dropped():
    doc = {"type": "Bin", "data": {"low": 0.0, "high": 1.0, "entries": 0.0, "values:type": "Sum",
                                   "values": [{"entries": 0.0, "sum": 0.0}, {"entries": 0.0, "sum": 0.0, "name": "x"}],
                                   "underflow:type": "Count", "underflow": 0.0, "overflow:type": "Count", "overflow": 0.0,
                                   "nanflow:type": "Count", "nanflow": 0.0}, "version": "1.1"}
    h = _accepts(doc)
    return h is not None and "name" not in h.toJson()["data"]["values"][1]


def empty_leaf_statistics_normalised():
    h = _accepts({"type": "Deviate", "data": {"entries": 0.0, "mean": "nan", "variance": 3.5}, "version": "1.1"})
    return h is not None and h.toJson()["data"]["variance"] != 3.5


def sum_numpy_drops_nan():
    """C03: Sum._numpy ignores rows whose quantity is NaN; the row-wise fill makes the sum NaN"""
    import numpy as np

    a = hg.Sum(lambda d: d)
    a.fill.numpy(np.array([1.0, float("nan"), 2.0]))
    b = hg.Sum(lambda d: d)
    for x in (1.0, float("nan"), 2.0):
        b.fill(x)
    return (a.sum == a.sum) and (b.sum != b.sum)


def scalar_weight_count_before_length_known():
    """C03: with a scalar weight, a Count visited before any quantity node receives w instead of w * n"""
    import numpy as np

    h = hg.Branch(hg.Count(), hg.Minimize(lambda d: d))
    h.fill.numpy(np.array([1.0, 2.0, 3.0]))
    return h.values[0].entries != 3.0


def named_after_cached_string_raises():
    """C17: a string expression gets its own text as name when first wrapped, so named() after cached() raises"""
    from histogrammar.util import cached, named

    try:
        named("n", cached("x + 1"))
        return False
    except ValueError:
        return True


def bin_views_inconsistent_near_edges():
    """C13: Bin.num_bins/bin_edges disagree for bounds within rounding distance of edges on non-dyadic
    configurations, and raise for a bound within numpy.isclose distance of the lowest edge"""
    import numpy as np

    h = hg.Bin(5, 0.1, 10.1, lambda d: d)
    bad1 = len(h.bin_edges(5.1, 6.1)) != h.num_bins(5.1, 6.1) + 1
    try:
        hg.Bin(2, 0, 10, lambda d: d).bin_edges(0, 5e-9)
        bad2 = False
    except RuntimeError:
        bad2 = True
    return bad1 or bad2
