"""Type-directed generators: aggregator tree specs, records, weights (DESIGN §4.3).

Every random choice comes from the ``random.Random`` handed in, so a case replays from
(seed, index).  Class E ("exact") values: k/8 with small k, dyadic edges/widths/centres, weights in
{1, 2, 3, 1/2, 1/4} plus the gate probes {0, -1, nan}.
"""
import math
import random
import sys
import os

REPO = os.environ.get("HG_REPO", "/repo")
if REPO not in sys.path:
    sys.path.insert(0, REPO)

import histogrammar as hg  # noqa: E402
from histogrammar.util import named  # noqa: E402

from wire import RAISES, WRONG, Boom  # noqa: E402

NAN = float("nan")
INF = float("inf")

# record layout: columns 0..3 numeric, 4 string or None, 5 bool, 6 vector (dimension 2), 7 string
NUM_COLS = [0, 1, 2, 3]
# selections multiply the weight by the quantity: column 3 never holds +-inf, so that weights stay
# finite (infinite weights are outside the stated domain of every property)
SEL_COL = 3
STR_COL = 4
BOOL_COL = 5
VEC_COL = 6
PURE_STR_COL = 7   # strings only (Bag range "S" rejects None)
NCOLS = 8

LEAVES = ["Count", "Sum", "Average", "Deviate", "Minimize", "Maximize", "Bag"]
SINGLE = ["Bin", "SparselyBin", "CentrallyBin", "IrregularlyBin", "Categorize", "Select"]
FANOUT = ["Stack", "Fraction", "Label", "UntypedLabel", "Index", "Branch"]
ALL_KINDS = LEAVES + SINGLE + FANOUT

NAMES = [None, None, "x", "y", "q", "w8"]
AWKWARD_NAMES = ["entries", "pairsAsDict", "data", "type", "name", "values", "bins", "pairs", "sub:type", "version", "0", "NaN"]
CATS = ["a", "b", "c", "NaN", "dd"]


# the one quantity shape used everywhere (self-contained: picklable through marshal)
def _cell(d, col):
    # a record is a list of cells (row-wise fill), a dict {"c0": ...} or a numpy record array with fields c0..c7
    v = d[col] if isinstance(d, (list, tuple)) else d["c%d" % col]
    if v is RAISES:
        raise Boom("quantity raised")
    if v is WRONG and col in NUM_COLS_SET:
        # a value of a type no numeric primitive accepts; which one is derived from the record itself (replayable)
        return wrong_value(d)
    return v


NUM_COLS_SET = (0, 1, 2, 3)


def wrong_value(d):
    k = 0
    for c in NUM_COLS_SET:
        x = d[c] if isinstance(d, (list, tuple)) else None
        if isinstance(x, (int, float)) and not isinstance(x, bool) and x == x and abs(x) != float("inf"):
            k = int(abs(x) * 8)
            break
    import numpy as _np

    return [WRONG, "oops", None, [1.0], complex(1.0, 1.0), {"a": 1.0}, complex(0.0, 2.0),
            _np.str_("oops"), _np.datetime64("2020-01-01")][k % 9]
    # (numpy.complex128 is left out: float() of it succeeds with a warning, so a Bag of numbers accepts it)


def make_quantity(col):
    # a lambda, so that UserFcn does not pick up a function name
    return lambda d, col=col: _cell(d, col)


def gen_q(rng, cols):
    col = rng.choice(cols)
    name = rng.choice(NAMES)
    return [col, name]


def dy(rng, lo, hi, step):
    """a dyadic number in [lo, hi] on a grid of `step`"""
    n = int(round((hi - lo) / step))
    return lo + step * rng.randint(0, n)


def gen_spec(rng, depth, kinds=None, leaf_kinds=None, allow_bag=True):
    """A random tree spec of depth <= `depth` over `kinds` (default: all 19)."""
    kinds = kinds or ALL_KINDS
    leaf_kinds = leaf_kinds or [k for k in kinds if k in LEAVES] or LEAVES
    if not allow_bag:
        leaf_kinds = [k for k in leaf_kinds if k != "Bag"] or ["Count"]
    containers = [k for k in kinds if k not in LEAVES]
    if depth <= 0 or not containers or rng.random() < 0.25:
        k = rng.choice(leaf_kinds)
    else:
        k = rng.choice(containers)

    def sub(d=depth - 1, **kw):
        return gen_spec(rng, d, kinds, leaf_kinds, allow_bag=kw.get("allow_bag", allow_bag))

    def flow():
        # flows are usually Counts, sometimes richer
        r_ = rng.random()
        if r_ < 0.8:
            return {"k": "Count"}
        hist = [k_ for k_ in ("Bin", "SparselyBin", "Categorize", "IrregularlyBin", "CentrallyBin", "Stack", "Fraction") if k_ in kinds]
        if r_ > 0.93 and hist and depth > 0:
            # a histogram of Counts as a flow (specialize() gives such containers a mix-in class of another class name)
            return gen_spec(rng, 1, hist + ["Count"], ["Count"], allow_bag)
        return gen_spec(rng, 0, kinds, leaf_kinds, allow_bag)

    if k == "Count":
        return {"k": "Count"}
    if k in ("Sum", "Average", "Deviate", "Minimize", "Maximize"):
        # Minimize/Maximize keep a bool quantity as a bool (serialised as JSON true/false): the
        # bool column is only offered to the primitives that turn it into a float
        cols = NUM_COLS if (rng.random() < 0.93 or k in ("Minimize", "Maximize")) else [BOOL_COL]
        return {"k": k, "q": gen_q(rng, cols)}
    if k == "Bag":
        r = rng.choice(["S", "N", "N", "N2"])
        col = {"S": PURE_STR_COL, "N": rng.choice(NUM_COLS), "N2": VEC_COL}[r]
        return {"k": "Bag", "q": [col, rng.choice(NAMES)], "range": r}
    if k == "Bin":
        n = rng.choice([1, 2, 3, 4, 5, 8])
        low = dy(rng, -4, 2, 0.5)
        high = low + rng.choice([0.5, 1, 1.5, 2, 2.5, 4, 8])
        return {"k": "Bin", "q": gen_q(rng, NUM_COLS), "n": n, "low": low, "high": high,
                "value": sub(), "underflow": flow(), "overflow": flow(), "nanflow": flow()}
    if k == "SparselyBin":
        return {"k": "SparselyBin", "q": gen_q(rng, NUM_COLS), "width": rng.choice([0.25, 0.5, 1, 2, 4]),
                "origin": dy(rng, -2, 2, 0.25), "value": sub(), "nanflow": flow()}
    if k == "CentrallyBin":
        m = rng.randint(2, 5)
        cs = sorted(set(dy(rng, -4, 4, 0.5) for _ in range(m + 2)))[:m]
        while len(cs) < 2:
            cs.append(cs[-1] + 1)
        return {"k": "CentrallyBin", "q": gen_q(rng, NUM_COLS), "centers": cs, "value": sub(), "nanflow": flow()}
    if k in ("IrregularlyBin", "Stack"):
        m = rng.randint(1, 4)
        es = sorted(set(dy(rng, -4, 4, 0.5) for _ in range(m + 1)))[:m]
        return {"k": k, "q": gen_q(rng, NUM_COLS), "edges": es, "value": sub(), "nanflow": flow()}
    if k == "Fraction":
        cols = [BOOL_COL] if rng.random() < 0.5 else [SEL_COL]
        return {"k": "Fraction", "q": gen_q(rng, cols), "value": sub()}
    if k == "Select":
        cols = [BOOL_COL] if rng.random() < 0.5 else [SEL_COL]
        return {"k": "Select", "q": gen_q(rng, cols), "cut": sub()}
    if k == "Categorize":
        # bool categories are excluded here: known finding C04-bool-category (keys become strings on reload)
        cols = [STR_COL]
        return {"k": "Categorize", "q": gen_q(rng, cols), "value": sub()}
    if k in ("Label", "Index"):
        # all members of one primitive type (and one Bag range)
        first = sub()
        members = [first]
        for _ in range(rng.randint(0, 2)):
            for _try in range(20):
                s = sub()
                if s["k"] == first["k"] and s.get("range") == first.get("range"):
                    members.append(s)
                    break
        if k == "Index":
            return {"k": "Index", "values": members}
        names = sorted(rng.sample(AWKWARD_NAMES, len(members))) if rng.random() < 0.15 else ["m%d" % i for i in range(len(members))]
        return {"k": "Label", "pairs": {nm: s for nm, s in zip(names, members)}}
    if k == "UntypedLabel":
        n = rng.randint(1, 3)
        # member names that coincide with parameter names / JSON keys of the library are legal names too
        names = rng.sample(AWKWARD_NAMES, n) if rng.random() < 0.15 else ["u%d" % i for i in range(n)]
        return {"k": "UntypedLabel", "pairs": {nm: sub() for nm in sorted(names)}}
    if k == "Branch":
        return {"k": "Branch", "values": [sub() for _ in range(rng.randint(1, 3))]}
    raise ValueError(k)


def scalar_weight_safe(spec):
    """Known finding C03-scalar-weight-count-first: under a scalar (or default) weight the batch length is only known once
    the first quantity has been evaluated; a Count visited before that gets the weight once instead of once per row, and a
    collection none of whose members evaluates a quantity cannot compute its own entries.  This simulates the visit order
    of fill.numpy on the tree and says whether that region is avoided, i.e. scalar weights are safe to use."""
    state = {"known": False, "safe": True}

    def visit(s, scalar):
        k = s["k"]
        if k == "Count":
            if scalar and not state["known"]:
                state["safe"] = False
            return
        if k in ("Label", "UntypedLabel", "Index", "Branch"):
            members = list(s["pairs"].values()) if "pairs" in s else list(s["values"])
            if s.get("order") == "rev":
                members.reverse()
            for m in members:
                visit(m, scalar)
            if scalar and not state["known"]:
                state["safe"] = False
            return
        # every other primitive evaluates its own quantity first; what is below a binning container, a Select or a
        # Fraction receives a weight array
        state["known"] = True
        for key in ("value", "underflow", "overflow", "nanflow", "cut"):
            if key in s:
                visit(s[key], False)

    visit(spec, True)
    return state["safe"]


def gen_count_sibling_spec(rng):
    """A collection in which plain Counts follow a member that evaluates a quantity: under a scalar weight these Counts
    learn the batch length from their sibling (the safe side of known finding C03-scalar-weight-count-first)."""
    first = gen_spec(rng, rng.randint(0, 1), kinds=[k for k in ALL_KINDS if k not in ("Count", "Label", "UntypedLabel", "Index", "Branch", "Bag")])
    members = [first] + [{"k": "Count"} for _ in range(rng.randint(1, 2))]
    if rng.random() < 0.5:
        members.insert(1, gen_spec(rng, 0, kinds=["Average", "Minimize", "Maximize", "Deviate"]))
    if rng.random() < 0.5:
        return {"k": "Branch", "values": members}
    return {"k": "UntypedLabel", "pairs": {"u%d" % i: m for i, m in enumerate(members)}}


BINNING = ["Bin", "SparselyBin", "CentrallyBin", "IrregularlyBin", "Categorize", "Stack", "Select", "Fraction"]


def gen_nested_binning_spec(rng, depth=2):
    """binning containers nested in binning containers over a (mostly non-Count) leaf: the trees the convenience classes
    specialise differently depending on when they are built (fresh, copy, sum, product, reload)"""
    return gen_spec(rng, depth, kinds=BINNING + ["Sum", "Average", "Deviate", "Minimize", "Maximize", "Bag", "Count"])


def gen_name_matrix_spec(rng):
    """One container whose own quantity, bin content and every flow are chosen independently as named / unnamed,
    Count / non-Count: the combinations in which a name must (or must not) be inherited on reload."""
    def leaf(allow_count=True):
        k = rng.choice((["Count"] if allow_count else []) + ["Sum", "Average", "Deviate", "Minimize", "Maximize", "Sum", "Average"])
        if k == "Count":
            return {"k": "Count"}
        return {"k": k, "q": [rng.choice(NUM_COLS), rng.choice([None, None, "x", "y", "w8"])]}

    def inner():
        # the bin content: a leaf, or a collection of leaves (whose members keep their own names)
        r = rng.random()
        if r < 0.6:
            return leaf()
        if r < 0.8:
            return {"k": "Branch", "values": [leaf(False) for _ in range(rng.randint(1, 3))]}
        first = leaf(False)
        return {"k": "Label", "pairs": {"m0": first, "m1": {"k": first["k"], "q": [rng.choice(NUM_COLS), rng.choice([None, "q"])]}}}

    if rng.random() < 0.25:
        # a keyed collection whose member names coincide with parameter names / JSON keys of the library
        names = sorted(rng.sample(AWKWARD_NAMES, rng.randint(1, 3)))
        if rng.random() < 0.5:
            return {"k": "UntypedLabel", "pairs": {nm: leaf() for nm in names}}
        first = leaf(False)
        return {"k": "Label", "pairs": {nm: {"k": first["k"], "q": [rng.choice(NUM_COLS), rng.choice([None, "q"])]} for nm in names}}
    k = rng.choice(["Bin", "SparselyBin", "CentrallyBin", "IrregularlyBin", "Stack", "Fraction", "Select", "Categorize"])
    q = [rng.choice(NUM_COLS), rng.choice([None, "x", "q"])]
    if k == "Bin":
        return {"k": k, "q": q, "n": 3, "low": -1.0, "high": 2.0, "value": inner(), "underflow": leaf(), "overflow": leaf(), "nanflow": leaf()}
    if k == "SparselyBin":
        return {"k": k, "q": q, "width": 1, "origin": 0.0, "value": inner(), "nanflow": leaf()}
    if k == "CentrallyBin":
        return {"k": k, "q": q, "centers": [-1.0, 0.5, 2.0], "value": inner(), "nanflow": leaf()}
    if k in ("IrregularlyBin", "Stack"):
        return {"k": k, "q": q, "edges": [-1.0, 1.0], "value": inner(), "nanflow": leaf()}
    if k == "Fraction":
        return {"k": k, "q": [BOOL_COL, q[1]], "value": inner()}
    if k == "Select":
        return {"k": k, "q": [BOOL_COL, q[1]], "cut": inner()}
    return {"k": k, "q": [STR_COL, q[1]], "value": inner()}


# module-level `def` quantities (a def has an implicit name: the function name)
def col0(d):
    return _cell(d, 0)


def col1(d):
    return _cell(d, 1)


def col2(d):
    return _cell(d, 2)


def col3(d):
    return _cell(d, 3)


DEFS = {0: col0, 1: col1, 2: col2, 3: col3}


def _local_def(col):
    """a quantity written as a def inside another function (not reachable as module.name), the column bound as a default"""
    def colq(d, col=col):
        return _cell(d, col)
    return colq


def mkq(q):
    """q = [column, name] or [column, name, form]; form in lambda (default) | def | str | cached | cachedstr"""
    col, name = q[0], q[1]
    form = q[2] if len(q) > 2 else "lambda"
    if form == "def" and col in DEFS:
        return DEFS[col]                      # implicit name colN
    if form == "localdef":
        return _local_def(col)                # a def made inside another function; implicit name colq
    if form == "str":
        return "c%d" % col                    # string expression; implicit name is its text
    if form == "cachedstr":
        from histogrammar.util import cached

        return cached("c%d" % col)
    if form in ("namedstr", "cachednamedstr"):
        # a string expression with an explicit name that differs from its text
        from histogrammar.util import cached

        f = named(name, "c%d" % col) if name is not None else "c%d" % col
        return cached(f) if form == "cachednamedstr" else f
    f = make_quantity(col)
    if form == "nandefault":
        # a self-contained lambda with a NaN and an array among its default arguments (a "missing" marker, a look-up table)
        import numpy as _np

        f = lambda d, col=col, missing=float("nan"), table=_np.arange(3.0): _cell(d, col)  # noqa: E731
    if form == "cached":
        from histogrammar.util import cached

        f = cached(f)
    return named(name, f) if name is not None else f


def effective_name(q):
    form = q[2] if len(q) > 2 else "lambda"
    if form == "def" and q[0] in DEFS:
        return "col%d" % q[0]
    if form == "localdef":
        return "colq"
    if form in ("str", "cachedstr"):
        return "c%d" % q[0]
    if form in ("namedstr", "cachednamedstr"):
        return q[1] if q[1] is not None else "c%d" % q[0]
    return q[1]


def effective_spec(spec):
    """the spec as the model sees it: quantities are (column, effective name)"""
    import copy

    s = copy.deepcopy(spec)
    for node in walk(s):
        if "q" in node:
            node["q"] = [node["q"][0], effective_name(node["q"])]
    return s


def build(spec):
    """The real aggregator for a spec, through the public constructors."""
    k = spec["k"]
    if k == "Count":
        return hg.Count()
    if k in ("Sum", "Average", "Deviate", "Minimize", "Maximize"):
        return getattr(hg, k)(mkq(spec["q"]))
    if k == "Bag":
        return hg.Bag(mkq(spec["q"]), spec["range"])
    if k == "Bin":
        return hg.Bin(spec["n"], spec["low"], spec["high"], mkq(spec["q"]), build(spec["value"]),
                      build(spec["underflow"]), build(spec["overflow"]), build(spec["nanflow"]))
    if k == "SparselyBin":
        return hg.SparselyBin(spec["width"], mkq(spec["q"]), build(spec["value"]), build(spec["nanflow"]),
                              spec["origin"])
    if k == "CentrallyBin":
        return hg.CentrallyBin(list(spec["centers"]), mkq(spec["q"]), build(spec["value"]), build(spec["nanflow"]))
    if k == "IrregularlyBin":
        return hg.IrregularlyBin(list(spec["edges"]), mkq(spec["q"]), build(spec["value"]), build(spec["nanflow"]))
    if k == "Stack":
        return hg.Stack(list(spec["edges"]), mkq(spec["q"]), build(spec["value"]), build(spec["nanflow"]))
    if k == "Fraction":
        return hg.Fraction(mkq(spec["q"]), build(spec["value"]))
    if k == "Select":
        return hg.Select(mkq(spec["q"]), build(spec["cut"]))
    if k == "Categorize":
        return hg.Categorize(mkq(spec["q"]), build(spec["value"]))
    if k in ("Label", "UntypedLabel"):
        # "order": "rev" — the same members given in the opposite keyword order (the order is not part of the content)
        items = list(spec["pairs"].items())
        if spec.get("order") == "rev":
            items.reverse()
        return getattr(hg, k)(**{n: build(s) for n, s in items})
    if k == "Index":
        return hg.Index(*[build(s) for s in spec["values"]])
    if k == "Branch":
        return hg.Branch(*[build(s) for s in spec["values"]])
    raise ValueError(k)


def walk(spec):
    yield spec
    for key in ("value", "underflow", "overflow", "nanflow", "cut"):
        if key in spec:
            yield from walk(spec[key])
    if "pairs" in spec:
        for s in spec["pairs"].values():
            yield from walk(s)
    if "values" in spec and isinstance(spec["values"], list):
        for s in spec["values"]:
            yield from walk(s)


def kinds_of(spec):
    return sorted(set(s["k"] for s in walk(spec)))


def critical_values(spec):
    """every edge / threshold / centre / midpoint of the tree, each +- one grid step"""
    out = set()
    for s in walk(spec):
        k = s["k"]
        if k == "Bin":
            w = (s["high"] - s["low"]) / s["n"]
            for i in range(s["n"] + 1):
                out.add(s["low"] + i * w)
        elif k == "SparselyBin":
            for i in range(-3, 4):
                out.add(s["origin"] + i * s["width"])
        elif k == "CentrallyBin":
            cs = s["centers"]
            out.update(cs)
            out.update((a + b) / 2.0 for a, b in zip(cs, cs[1:]))
        elif k in ("IrregularlyBin", "Stack"):
            out.update(s["edges"])
    crit = set()
    for v in out:
        # keep class E: only dyadic values with a short fraction
        if float(v * 64).is_integer():
            crit.update([v, v - 0.125, v + 0.125])
    return sorted(crit)


def gen_value(rng, crit):
    r = rng.random()
    if r < 0.08:
        return NAN
    if r < 0.12:
        return INF
    if r < 0.16:
        return -INF
    if crit and r < 0.6:
        return rng.choice(crit)
    return rng.randint(-48, 48) / 8.0


def gen_datum(rng, crit, fault_rate=0.0):
    d = [gen_value(rng, crit) for _ in NUM_COLS]
    if math.isinf(d[SEL_COL]):
        d[SEL_COL] = rng.randint(-16, 24) / 8.0
    r = rng.random()
    d.append(None if r < 0.08 else rng.choice(CATS))
    d.append(rng.random() < 0.6)
    d.append([rng.choice([0.0, 1.0, 2.5, NAN, -1.5]), rng.choice([0.0, 1.0, INF, 0.5])])
    d.append(rng.choice(CATS))
    if fault_rate and rng.random() < fault_rate:
        i = rng.randrange(NCOLS)
        d[i] = RAISES if rng.random() < 0.5 else WRONG
    return d


WEIGHTS = [1.0, 1.0, 1.0, 2.0, 3.0, 0.5, 0.25]
GATE_WEIGHTS = [0.0, -1.0, NAN, -0.5]


def gen_weight(rng, gate_rate=0.15):
    if rng.random() < gate_rate:
        return rng.choice(GATE_WEIGHTS)
    return rng.choice(WEIGHTS)


def gen_stream(rng, spec, n, fault_rate=0.0, gate_rate=0.15):
    crit = critical_values(spec)
    out = [(gen_datum(rng, crit, fault_rate), gen_weight(rng, gate_rate)) for _ in range(n)]
    if any(s_["k"] == "Bag" and s_.get("range") == "N2" for s_ in walk(spec)):
        # a Bag of vectors: equal vectors must be recognised as one key, also when a component is NaN (every record
        # carries its own NaN object once the case went through its JSON form)
        r2 = random.Random(rng.random())
        for i in range(1, len(out)):
            if r2.random() < 0.45:
                src = out[r2.randrange(i)][0][VEC_COL]
                if isinstance(src, list):
                    out[i][0][VEC_COL] = list(src)
    return out


# ---------------------------------------------------------------- structural perturbation (C09, C10)

def _paths(spec, path=()):
    yield path
    for key in ("value", "underflow", "overflow", "nanflow", "cut"):
        if isinstance(spec.get(key), dict):
            yield from _paths(spec[key], path + (key,))
    if isinstance(spec.get("pairs"), dict):
        for k, s in spec["pairs"].items():
            yield from _paths(s, path + ("pairs", k))
    if isinstance(spec.get("values"), list):
        for i, s in enumerate(spec["values"]):
            yield from _paths(s, path + ("values", i))


def _get(spec, path):
    for p in path:
        spec = spec[p]
    return spec


def _depth(path):
    return sum(1 for p in path if p in ("value", "underflow", "overflow", "nanflow", "cut", "pairs", "values"))


def perturb_spec(rng, spec, allow_type_swap=True, allow_dupcenter=False, allow_qname=False):
    """A copy of `spec` that differs in exactly one structural parameter or one child type at a
    random position.  Returns (spec2, description, depth of the changed node) or None."""
    import copy

    for _try in range(40):
        s2 = copy.deepcopy(spec)
        # all (path, change) candidates; parameter changes are weighted above plain type swaps
        cands = []
        for path in _paths(s2):
            k0 = _get(s2, path)["k"]
            per = {"Bin": ["n", "low", "high", "lowtiny", "hightiny"], "SparselyBin": ["width", "origin", "widthtiny", "origintiny"],
                   "CentrallyBin": ["center", "addcenter", "dupcenter", "centertiny"],
                   "IrregularlyBin": ["edge", "addedge", "dropedge", "edgetiny"], "Stack": ["edge", "addedge", "dropedge", "edgetiny", "permedges"],
                   "Bag": ["range"], "Label": ["renamekey", "addmember", "kindswap"], "UntypedLabel": ["renamekey", "addmember", "kindswap"],
                   "Index": ["addmember", "kindswap"], "Branch": ["addmember", "kindswap"]}.get(k0, [])
            v0 = _get(s2, path).get("value")
            if allow_type_swap and isinstance(v0, dict) and v0.get("k") in ("Count", "Sum", "Average", "Deviate", "Minimize", "Maximize"):
                # the content type of a binning container (a histogram of Counts against a profile of Sums, ...): its own kind of
                # change, so that it is not crowded out by the type swaps that exist at every node
                per = per + ["valuetype"]
            for c0 in per:
                if (c0 in ("dupcenter", "permedges") or c0.endswith("tiny")) and not allow_dupcenter:
                    continue   # a repeated centre / a parameter moved by one float: only for containers that are never filled (C10)
                cands += [(path, c0)] * 4
            if allow_qname and "q" in _get(s2, path) and k0 != "Select":
                # the name of the quantity is part of what == compares (Select excepted: its == does not look at the quantity)
                cands += [(path, "qname")] * 2
            if allow_type_swap:
                cands.append((path, "type"))
                cands.append((path, "wrapselect"))
        if not cands:
            return None
        # structural parameters (number of bins, edges, widths, names, ...) get well over half of the cases: plain type swaps
        # and Select wrappers exist at every node and would otherwise crowd them out
        params = [x for x in cands if x[1] not in ("type", "wrapselect")]
        if params and rng.random() < 0.65:
            kinds_ = [k_ for k_ in sorted(set(x[1] for x in params)) for _ in range(1 if (k_.endswith("tiny") or k_ == "dupcenter") else 3)]
            c_ = rng.choice(kinds_)
            path, c = rng.choice([x for x in params if x[1] == c_])
        else:
            path, c = rng.choice(cands)
        node = _get(s2, path)
        k = node["k"]
        desc = "%s at /%s: %s" % (k, "/".join(map(str, path)), c)
        if c == "n":
            node["n"] = node["n"] + 1
        elif c == "low":
            node["low"] = node["low"] - 0.5
        elif c == "high":
            node["high"] = node["high"] + 0.5
        elif c == "width":
            node["width"] = node["width"] * 2
        elif c == "origin":
            node["origin"] = node["origin"] + 0.25
        elif c == "center":
            i = rng.randrange(len(node["centers"]))
            node["centers"][i] = node["centers"][i] + 0.25
            if sorted(set(node["centers"])) != node["centers"]:
                continue
        elif c == "addcenter":
            node["centers"] = node["centers"] + [node["centers"][-1] + 1.0]
        elif c == "dupcenter":
            # the constructor accepts a repeated centre: same set of centres, one more bin
            i = rng.randrange(len(node["centers"]))
            node["centers"] = node["centers"][:i + 1] + node["centers"][i:]
        elif c == "edge":
            i = rng.randrange(len(node["edges"]))
            node["edges"][i] = node["edges"][i] + 0.25
            if sorted(set(node["edges"])) != node["edges"]:
                continue
        elif c == "addedge":
            node["edges"] = node["edges"] + [node["edges"][-1] + 1.0]
        elif c == "dropedge":
            if len(node["edges"]) < 2:
                continue
            node["edges"] = node["edges"][:-1]
        elif c == "permedges":
            # the same thresholds in another order: a Stack keeps them as given (it neither sorts nor rejects them), and two
            # Stacks whose levels mean different cuts must not be merged level by level
            if len(node["edges"]) < 2:
                continue
            node["edges"] = list(reversed(node["edges"]))
        elif c == "qname":
            cur = node["q"][1]
            node["q"] = [node["q"][0], rng.choice([n for n in ["x", "y", "q", "w8", "zz", None] if n != cur])] + list(node["q"][2:])
        elif c == "range":
            node["range"] = {"S": "N", "N": "N2", "N2": "N"}[node["range"]]
            node["q"][0] = {"S": PURE_STR_COL, "N": 0, "N2": VEC_COL}[node["range"]]
        elif c == "renamekey":
            keys = list(node["pairs"])
            old = rng.choice(keys)
            node["pairs"] = {(kk + "x" if kk == old else kk): v for kk, v in node["pairs"].items()}
        elif c == "addmember":
            if k in ("Label", "UntypedLabel"):
                first = next(iter(node["pairs"].values()))
                node["pairs"]["zz"] = copy.deepcopy(first)
            else:
                node["values"].append(copy.deepcopy(node["values"][0]))
        elif c in ("lowtiny", "hightiny", "widthtiny", "origintiny", "centertiny", "edgetiny"):
            # a structural parameter that differs by very little (the next float, or 1e-9): still a different binning
            import math as _m

            def nudge(v):
                return _m.nextafter(v, _m.inf) if rng.random() < 0.5 else v + 1e-9
            if c == "lowtiny":
                node["low"] = nudge(node["low"])
            elif c == "hightiny":
                node["high"] = nudge(node["high"])
            elif c == "widthtiny":
                node["width"] = nudge(node["width"])
            elif c == "origintiny":
                node["origin"] = nudge(node["origin"])
            elif c == "centertiny":
                i = rng.randrange(len(node["centers"]))
                node["centers"][i] = nudge(node["centers"][i])
                if sorted(set(node["centers"])) != node["centers"]:
                    continue
            else:
                i = rng.randrange(len(node["edges"]))
                node["edges"][i] = nudge(node["edges"][i])
                if sorted(set(node["edges"])) != node["edges"]:
                    continue
        elif c == "wrapselect":
            # the same aggregator behind a Select (which forwards attribute access to its cut): a different primitive
            wrapped = {"k": "Select", "q": [BOOL_COL, None], "cut": copy.deepcopy(node)}
            if not path:
                s2 = wrapped
            else:
                _get(s2, path[:-1])[path[-1]] = wrapped
        elif c == "kindswap":
            # the same members in the sibling collection type (Label <-> UntypedLabel, Index <-> Branch)
            node["k"] = {"Label": "UntypedLabel", "UntypedLabel": "Label", "Index": "Branch", "Branch": "Index"}[k]
        elif c == "valuetype":
            repl = rng.choice([{"k": "Count"}, {"k": "Sum", "q": [0, None]}, {"k": "Minimize", "q": [1, None]},
                               {"k": "Average", "q": [0, None]}, {"k": "Maximize", "q": [1, None]},
                               {"k": "Deviate", "q": [2, None]}])
            if repl["k"] == node["value"]["k"]:
                continue
            desc = "%s at /%s: content type %s -> %s" % (k, "/".join(map(str, path)), node["value"]["k"], repl["k"])
            node["value"] = repl
            try:
                build(s2)
            except Exception:  # noqa: BLE001
                continue
            return s2, desc, _depth(path) + 1
        elif c == "type":
            # replace the node by an aggregator of another primitive type
            repl = rng.choice([{"k": "Count"}, {"k": "Sum", "q": [0, None]}, {"k": "Minimize", "q": [1, None]},
                               {"k": "Average", "q": [0, None]}, {"k": "Maximize", "q": [1, None]},
                               {"k": "Deviate", "q": [2, None]}])
            if repl["k"] == k:
                continue
            if not path:
                s2 = repl
            else:
                parent = _get(s2, path[:-1])
                parent[path[-1]] = repl
        try:
            build(s2)
        except Exception:  # noqa: BLE001
            continue  # e.g. a Label whose members no longer share one type
        # a Select wrapped in a Select differs from the original one level further down (Select vs Select at this level)
        extra = 1 if (c == "wrapselect" and k == "Select") else 0
        return s2, desc, _depth(path) + extra
    return None
