"""Generic check runner (DESIGN §5): Lean obligations, known findings, correspondence + oracle over
generated cases, failing-input search, shrinking, replay files, evidence."""
import json
import math
import multiprocessing as mp
import os
import random
import sys
import time
import traceback

HERE = os.path.dirname(os.path.abspath(__file__))
VERIF = os.path.dirname(HERE)
if HERE not in sys.path:
    sys.path.insert(0, HERE)

import leanside  # noqa: E402

REPLAYS = os.path.join(VERIF, "replays")
EVIDENCE = os.path.join(VERIF, "evidence")
CORPUS = os.path.join(VERIF, "corpus")
KNOWN = os.path.join(VERIF, "known_findings.json")

TRUSTED_BASE = [
    "Lean 4.33.0 kernel; axioms propext, Classical.choice, Quot.sound only (audited with #print axioms on every run)",
    "hand-written Lean model Hg/Model/*.lean, tied to /repo by the correspondence run of this check (harness/*.py, compiled driver hgdriver)",
    "the wire reader/printer and protocol glue Hg/Driver/*.lean and Python json/fractions",
    "IEEE-754 rounding is abstracted: numbers are exact rationals with nan/+-inf; inputs are chosen so that the library's float arithmetic is exact except for means/variances (compared to 1e-9)",
    "user quantity functions are column selectors (pure, deterministic)",
]


# ---------------------------------------------------------------- JSON (de)serialisation of cases

def enc(x):
    import wire

    if x is wire.RAISES:
        return {"$cell": "raises"}
    if isinstance(x, wire.Wrong):
        return {"$cell": "wrong"}
    if isinstance(x, float):
        if math.isnan(x):
            return {"$f": "nan"}
        if math.isinf(x):
            return {"$f": "inf" if x > 0 else "-inf"}
        return x
    if isinstance(x, (list, tuple)):
        return [enc(v) for v in x]
    if isinstance(x, dict):
        return {str(k): enc(v) for k, v in x.items()}
    from fractions import Fraction

    if isinstance(x, Fraction):
        return {"$q": [x.numerator, x.denominator]}
    return x


def dec(x):
    import wire

    if isinstance(x, dict):
        if set(x) == {"$cell"}:
            return wire.RAISES if x["$cell"] == "raises" else wire.WRONG
        if set(x) == {"$f"}:
            return float(x["$f"])
        if set(x) == {"$q"}:
            from fractions import Fraction

            return Fraction(x["$q"][0], x["$q"][1])
        return {k: dec(v) for k, v in x.items()}
    if isinstance(x, list):
        return [dec(v) for v in x]
    return x


def ops_from_json(ops):
    """lists -> the tuple form the executors use (streams are lists of (datum, w) pairs)"""
    out = []
    for op in ops:
        op = list(op)
        if op[0] in ("fills", "fillsnp"):
            op[2] = [(row[0], row[1]) for row in op[2]]
        out.append(tuple(op))
    return out


# ---------------------------------------------------------------- one case

def materialise(prop, case):
    """A case is its generator parameters; the operation list and the expectations are derived from
    them by the property module (so that shrinking the parameters always yields a consistent case)."""
    if "params" in case and "ops" not in case:
        built = prop.build(dec(case["params"]))
        case = dict(case)
        case["ops"] = [list(o) for o in built["ops"]]
        case["expect"] = [list(e) for e in built["expect"]]
    return case


class CaseResult:
    def __init__(self):
        self.divergence = None      # correspondence disagreement (dict)
        self.violations = []        # oracle failures (list of str)
        self.error = None           # infrastructure error (str)
        self.stats = {}


def run_case(prop, case, model):
    """correspondence + oracle for one case"""
    import execs

    res = CaseResult()
    try:
        case = materialise(prop, case)
        ops = ops_from_json(dec(case["ops"]))
        py = prop.make_py() if hasattr(prop, "make_py") else execs.PyExec()
        py.case = case
        replies = []
        div, py = execs.run_history(ops, model, py=py, replies=replies, expander=getattr(prop, "expand_ops", None))
        res.divergence = div
        if hasattr(prop, "post_model") and div is None:
            res.divergence = prop.post_model(py, model)
        res.violations = prop.oracle(case, py, replies)
        res.stats = prop.stats(case, py, replies) if hasattr(prop, "stats") else {}
    except Exception as e:  # noqa: BLE001
        res.error = "%s: %s\n%s" % (type(e).__name__, e, traceback.format_exc()[-1500:])
    return res


def oracle_only(prop, case):
    """the implementation-level oracle without the model (failing-input search engine)"""
    import execs

    try:
        case = materialise(prop, case)
        ops = ops_from_json(dec(case["ops"]))
        py = prop.make_py() if hasattr(prop, "make_py") else execs.PyExec()
        replies = []
        queue = list(ops)
        while queue:
            op = queue.pop(0)
            if op[0] == "mutations" and hasattr(prop, "expand_ops"):
                queue = list(prop.expand_ops(op, py)) + queue
                continue
            if op[0] == "mcheck":
                replies.append("ok")
                continue
            op = execs.expand(op, py)
            try:
                replies.append(py.apply(op))
            except Exception as e:  # noqa: BLE001
                replies.append("crash:" + type(e).__name__ + ":" + str(e)[:200])
        return prop.oracle(case, py, replies)
    except Exception as e:  # noqa: BLE001
        return ["oracle crashed: %s: %s" % (type(e).__name__, e)]


def new_case(prop, rng, tier):
    return {"prop": prop.ID, "params": enc(prop.gen_params(rng, tier))}


# ---------------------------------------------------------------- workers

_W = {}


def _worker_init(prop_name):
    import importlib
    import execs

    sys.setrecursionlimit(10000)
    _W["prop"] = importlib.import_module("props." + prop_name)
    _W["model"] = execs.ModelExec()


def _worker_run(args):
    seed, index, tier = args
    prop = _W["prop"]
    rng = random.Random((seed * 1000003 + index) * 7919 + 17)
    t0 = time.time()
    try:
        case = new_case(prop, rng, tier)
    except Exception as e:  # noqa: BLE001
        return {"index": index, "error": "generator: %s: %s\n%s" % (type(e).__name__, e, traceback.format_exc()[-800:])}
    case["seed"], case["index"] = seed, index
    import signal

    def _alarm(signum, frame):
        raise TimeoutError("case exceeded the per-case time limit")

    signal.signal(signal.SIGALRM, _alarm)
    signal.alarm(int(getattr(prop, "CASE_TIMEOUT_S", 120)))
    try:
        r = run_case(prop, case, _W["model"])
    except Exception as e:  # noqa: BLE001
        r = CaseResult()
        r.error = "%s: %s" % (type(e).__name__, e)
    finally:
        signal.alarm(0)
    if r.error and "driver died" in r.error:
        import execs

        _W["model"] = execs.ModelExec()
    out = {"index": index, "divergence": r.divergence, "violations": r.violations, "error": r.error,
           "stats": r.stats, "key": case_key(case),
           "dt": time.time() - t0}
    if r.divergence or r.violations or r.error:
        out["case"] = case
    elif index < 3:
        out["sample"] = sample_of(prop, case)
    return out


# ---------------------------------------------------------------- shrinking

def case_key(case):
    import hashlib

    return hashlib.sha1(json.dumps(case["params"], sort_keys=True, default=str).encode()).hexdigest()[:16]


def sample_of(prop, case):
    c = materialise(prop, case)
    brief = []
    for op in enc(c["ops"])[:8]:
        s = json.dumps(op, default=str)
        brief.append(s if len(s) < 400 else s[:400] + "...")
    return {"ops": brief, "expect": [str(e[:4]) for e in c.get("expect", [])][:8]}


def _subspec_paths(spec, path=()):
    for key in ("value", "underflow", "overflow", "nanflow", "cut"):
        if isinstance(spec.get(key), dict):
            yield path + (key,)
            yield from _subspec_paths(spec[key], path + (key,))
    if isinstance(spec.get("pairs"), dict):
        for k, s in spec["pairs"].items():
            yield path + ("pairs", k)
            yield from _subspec_paths(s, path + ("pairs", k))
    if isinstance(spec.get("values"), list):
        for i, s in enumerate(spec["values"]):
            yield path + ("values", i)
            yield from _subspec_paths(s, path + ("values", i))


def shrink(prop, case, fails, budget_s=40):
    """Greedy delta debugging on the generator parameters (rows of every list named in
    prop.SHRINK_LISTS, then sub-trees of params['spec']) while `fails(case)` holds."""
    import copy as _copy

    t_end = time.time() + budget_s
    best = {"prop": case.get("prop"), "params": _copy.deepcopy(case["params"]), "seed": case.get("seed"), "index": case.get("index")}

    def try_(params):
        nonlocal best
        if time.time() > t_end:
            return False
        c = dict(best, params=params)
        # a simplified tree must still be one the public constructors accept on the unchanged library
        # (e.g. all members of a Label of one type): otherwise "it fails" only says the case is malformed
        for sname in getattr(prop, "SHRINK_SPECS", ["spec"]) + ["spec2"]:
            sp = params.get(sname) if isinstance(params, dict) else None
            if isinstance(sp, dict) and "k" in sp:
                try:
                    import gen as _gen

                    _gen.build(sp)
                except Exception:  # noqa: BLE001
                    return False
        try:
            if fails(c):
                best = c
                return True
        except Exception:  # noqa: BLE001
            pass
        return False

    for name in getattr(prop, "SHRINK_LISTS", ["stream"]):
        if not isinstance(best["params"].get(name), list):
            continue
        chunk = max(1, len(best["params"][name]) // 2)
        while chunk >= 1 and time.time() < t_end:
            i = 0
            while i < len(best["params"][name]):
                p = _copy.deepcopy(best["params"])
                del p[name][i:i + chunk]
                if not try_(p):
                    i += chunk
            chunk //= 2
    for sname in getattr(prop, "SHRINK_SPECS", ["spec"]):
        if not isinstance(best["params"].get(sname), dict):
            continue
        progress = True
        while progress and time.time() < t_end:
            progress = False
            for path in list(_subspec_paths(best["params"][sname])):
                p = _copy.deepcopy(best["params"])
                node = p[sname]
                try:
                    for k in path[:-1]:
                        node = node[k]
                    if node[path[-1]] == {"k": "Count"}:
                        continue
                    node[path[-1]] = {"k": "Count"}
                except (KeyError, IndexError, TypeError):
                    continue
                if try_(p):
                    progress = True
                    break
    if hasattr(prop, "shrink_more"):
        for p in prop.shrink_more(_copy.deepcopy(best["params"])):
            if time.time() > t_end:
                break
            try_(p)
    best["minimal"] = True
    return best


# ---------------------------------------------------------------- known findings

def load_known(prop_id):
    if not os.path.exists(KNOWN):
        return []
    data = json.load(open(KNOWN))
    return [f for f in data.get("findings", []) if f.get("property") == prop_id]


def replay_known(prop_id):
    """returns (lines to print, list of finding ids still present)"""
    import findings as fmod

    lines, present = [], []
    for f in load_known(prop_id):
        if f.get("status") == "fixed":
            # a fixed entry suppresses nothing; the witness is still run as a regression probe by the main slice
            continue
        fn = getattr(fmod, f["witness"], None)
        if fn is None:
            continue
        try:
            still = bool(fn())
        except Exception as e:  # noqa: BLE001
            still = True
            f = dict(f, what=f["what"] + " (witness raised %s)" % type(e).__name__)
        if still:
            present.append(f["id"])
            lines.append("KNOWN-FINDING: property=%s %s" % (prop_id, f["what"]))
    return lines, present


# ---------------------------------------------------------------- main entry

def write_replay(prop_id, seed, n, payload):
    os.makedirs(REPLAYS, exist_ok=True)
    path = os.path.join(REPLAYS, "%s-%s-%s.json" % (prop_id, seed, n))
    with open(path, "w") as f:
        json.dump(enc(payload), f, indent=1, default=str)
    return os.path.relpath(path, VERIF)


def main(prop_name, tier="quick", seed=0, replay=None, ncases=None, jobs=None):
    import importlib

    t0 = time.time()
    prop = importlib.import_module("props." + prop_name)
    pid = prop.ID
    os.makedirs(EVIDENCE, exist_ok=True)
    ev_path = os.path.join(EVIDENCE, pid + ".json")
    if os.path.exists(ev_path):
        os.remove(ev_path)
    exit_code = 0
    out_lines = []

    # ---- replay mode
    if replay:
        case = json.load(open(replay if os.path.isabs(replay) else os.path.join(VERIF, replay)))
        if "case" in case:
            case = case["case"]
        v = oracle_only(prop, case)
        if v:
            print("VIOLATION property=%s replay=%s" % (pid, replay))
            for x in v[:5]:
                print("  ", x)
            return 1
        print("replay: property holds on this input")
        return 0

    # ---- 1. regenerate source-derived tables, build, scan
    obligations = {}
    broken = []
    if hasattr(prop, "pre_build"):
        try:
            msg = prop.pre_build()
            if msg:
                broken.append(("extract", msg))
        except Exception as e:  # noqa: BLE001
            broken.append(("extract", "source-derived table could not be regenerated: %s" % e))
    # only this property's module (and the model driver): a broken obligation of another property
    # (e.g. a regenerated table) must not raise an alarm here
    ok, out, dt = leanside.build((prop.LEAN_MODULE, "hgdriver") if getattr(prop, "THEOREMS", []) else ("hgdriver",))
    if not ok:
        # infrastructure or a broken generated obligation
        errs = [ln for ln in out.split("\n") if "error" in ln][:10]
        broken.append(("lake build", "\n".join(errs) or out[-1500:]))
    hits = leanside.scan_sources()
    if hits:
        broken.append(("source scan", "; ".join(hits[:5])))
    # ---- 2. audit
    thms = list(getattr(prop, "THEOREMS", []))
    audit_res = {}
    if ok and thms:
        aok, audit_res, aout = leanside.audit(prop.LEAN_MODULE, thms)
        for t in thms:
            r = audit_res.get(t, {"ok": False, "axioms": None})
            obligations[t] = r
            if not r["ok"]:
                broken.append((t, "theorem missing or depends on non-standard axioms: %s" % (r["axioms"],)))
        if not aok and not any(b[0] in thms for b in broken):
            broken.append(("audit", aout[-800:]))
    elif thms:
        for t in thms:
            obligations[t] = {"ok": False, "axioms": None}
    if tier == "thorough" and ok and thms and getattr(prop, "LEANCHECKER", True):
        cok, cout, cdt = leanside.leanchecker([prop.LEAN_MODULE])
        obligations["leanchecker " + prop.LEAN_MODULE] = {"ok": cok, "axioms": []}
        if not cok:
            broken.append(("leanchecker", cout[-600:]))

    # ---- 3. known findings
    kf_lines, kf_present = replay_known(pid)
    for ln in kf_lines:
        print(ln)

    # ---- 4/5. correspondence + oracle over corpus and generated cases
    if ncases is None:
        ncases = prop.CASES[tier]
    jobs = jobs or min(16, os.cpu_count() or 4)
    results = []
    infra_error = None
    corpus_cases = []
    cdir = os.path.join(CORPUS, pid)
    if os.path.isdir(cdir):
        for fn in sorted(os.listdir(cdir)):
            if fn.endswith(".json"):
                c = json.load(open(os.path.join(cdir, fn)))
                corpus_cases.append(c.get("case", c))
    violations, divergences, errors = [], [], []
    stats_total = {}
    keys = set()
    samples = []
    n_eval = 0
    nontrivial = 0
    if ok:
        import execs

        model = execs.ModelExec()
        for c in corpus_cases:
            r = run_case(prop, c, model)
            n_eval += 1
            if r.violations:
                violations.append({"case": c, "violations": r.violations})
            elif r.divergence:
                divergences.append({"case": c, "divergence": r.divergence})
            elif r.error:
                errors.append(r.error)
        model.close()
        with mp.Pool(jobs, initializer=_worker_init, initargs=(prop_name,)) as pool:
            for r in pool.imap_unordered(_worker_run, [(seed, i, tier) for i in range(ncases)], chunksize=4):
                n_eval += 1
                if r.get("error"):
                    errors.append(r["error"])
                    continue
                if r.get("violations"):
                    violations.append(r)
                elif r.get("divergence"):
                    divergences.append(r)
                for k, v in (r.get("stats") or {}).items():
                    if isinstance(v, (int, float)):
                        stats_total[k] = stats_total.get(k, 0) + v
                if r.get("key") is not None and (r.get("stats") or {}).get("nontrivial", 1):
                    if r["key"] not in keys:
                        keys.add(r["key"])
                        nontrivial += 1
                if "sample" in r and len(samples) < 3:
                    samples.append(r["sample"])
    else:
        # the model could not be built: the oracle alone still searches for a failing input
        for i in range(ncases):
            rng = random.Random((seed * 1000003 + i) * 7919 + 17)
            try:
                c = new_case(prop, rng, tier)
            except Exception:  # noqa: BLE001
                continue
            c["seed"], c["index"] = seed, i
            n_eval += 1
            v = oracle_only(prop, c)
            if v:
                violations.append({"case": c, "violations": v, "index": i})
                break

    if errors:
        # a case the harness itself could not execute is never passed over in silence: either the library behaves in a way
        # the harness did not anticipate (which deserves a look) or the harness is wrong (which has to be repaired)
        infra_error = "harness errors (%d of %d cases): %s" % (len(errors), n_eval, errors[0][:600])

    # ---- 6. verdict
    verdict_lines = []
    if violations:
        v = sorted(violations, key=lambda r: len(json.dumps(r["case"], default=str)))[0]
        case = v["case"]
        small = shrink(prop, case, lambda c: bool(oracle_only(prop, c)))
        payload = {"property": pid, "kind": "oracle", "violations": oracle_only(prop, small) or v["violations"],
                   "case": small, "ops": materialise(prop, small)["ops"],
                   "how_to_replay": "./check %s --replay <this file>" % pid}
        path = write_replay(pid, seed, v.get("index", "corpus"), payload)
        verdict_lines.append("VIOLATION property=%s replay=%s" % (pid, path))
        exit_code = 1
    elif divergences or broken:
        # a broken proof obligation or correspondence: search for a concrete failing input of the property
        found = None
        t_search = time.time()
        extra = getattr(prop, "SEARCH_CASES", 400)
        i = 0
        while i < extra and time.time() - t_search < 60 and not found:
            rng = random.Random((seed * 1000003 + 10_000_000 + i) * 7919 + 17)
            try:
                c = new_case(prop, rng, tier)
                c["seed"], c["index"] = seed, 10_000_000 + i
                vv = oracle_only(prop, c)
                if vv:
                    found = (c, vv)
            except Exception:  # noqa: BLE001
                pass
            i += 1
        if not found:
            for d in divergences[:20]:
                vv = oracle_only(prop, d["case"])
                if vv:
                    found = (d["case"], vv)
                    break
        if found:
            small = shrink(prop, found[0], lambda c: bool(oracle_only(prop, c)))
            payload = {"property": pid, "kind": "oracle", "violations": oracle_only(prop, small) or found[1], "case": small,
                       "triggered_by": [b[0] for b in broken] + (["correspondence"] if divergences else [])}
            path = write_replay(pid, seed, "search", payload)
            verdict_lines.append("VIOLATION property=%s replay=%s" % (pid, path))
        else:
            payload = {"property": pid, "kind": "proof" if broken else "correspondence",
                       "no_longer_checks": [{"obligation": b[0], "detail": b[1]} for b in broken],
                       "correspondence": [{"divergence": d["divergence"], "case": d["case"]} for d in divergences[:3]],
                       "note": "no input violating the property was found on model or implementation; the property is no longer shown to hold"}
            path = write_replay(pid, seed, "unproved", payload)
            verdict_lines.append("VIOLATION property=%s replay=%s no-failing-input-found" % (pid, path))
        exit_code = 1
    if infra_error and exit_code == 0:
        print("INFRASTRUCTURE-ERROR: " + infra_error)
        exit_code = 2

    # ---- 7. evidence
    discharged = sum(1 for r in obligations.values() if r.get("ok"))
    cov = {
        "obligations": len(obligations),
        "discharged": discharged,
        "checker_cmd": "cd lean && lake build %s hgdriver && lake env lean Audit/%s.lean  (#print axioms for every theorem listed)" % (prop.LEAN_MODULE, prop.LEAN_MODULE.split(".")[-1]),
        "trusted_base": TRUSTED_BASE + list(getattr(prop, "EXTRA_TRUST", [])),
        "theorems": {t: (r.get("axioms")) for t, r in obligations.items()},
        "evaluations": n_eval,
        "distinct_nontrivial": nontrivial,
        "rule": getattr(prop, "RULE", "cases generated from the seeded PRNG; distinct by the tuple (tree spec, stream) hash; non-trivial when at least one fill passed the weight gate"),
        "samples": samples or [{"note": "no sample recorded"}],
        "traces_validated_against_impl": n_eval - len(divergences) - len(errors),
        "correspondence_divergences": len(divergences),
        "harness_errors": len(errors),
        "distribution": stats_total,
        "known_findings_present": kf_present,
        "corpus_cases": len(corpus_cases),
        "explanation": getattr(prop, "LEVEL_TEXT", ""),
    }
    ev = {
        "property_id": pid,
        "tier": tier,
        "seed": int(seed),
        "level": prop.LEVEL,
        "coverage": cov,
        "assumptions": list(getattr(prop, "ASSUMPTIONS", [])),
        "wall_s": round(time.time() - t0, 2),
        "violations": 1 if exit_code == 1 else 0,
    }
    with open(ev_path, "w") as f:
        json.dump(ev, f, indent=1, default=str)
    for ln in verdict_lines:
        print(ln)
    print("%s tier=%s seed=%s cases=%d nontrivial=%d divergences=%d errors=%d obligations=%d/%d wall=%.1fs -> exit %d" % (
        pid, tier, seed, n_eval, nontrivial, len(divergences), len(errors), discharged, len(obligations), time.time() - t0, exit_code))
    if errors[:1]:
        print("first harness error:", errors[0][:800])
    if divergences[:1] and exit_code == 1:
        print("first divergence:", json.dumps(enc(divergences[0]["divergence"]), default=str)[:800])
    for b in broken[:5]:
        print("broken obligation:", b[0], "::", str(b[1])[:400])
    return exit_code
