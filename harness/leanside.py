"""Lean side of a check run: regenerate source-derived tables, build, scan for forbidden
constructs, audit the axioms of the property theorems (DESIGN §5 steps 1-2)."""
import os
import re
import subprocess
import time

HERE = os.path.dirname(os.path.abspath(__file__))
VERIF = os.path.dirname(HERE)
LEAN_DIR = os.path.join(VERIF, "lean")

ALLOWED_AXIOMS = {"propext", "Classical.choice", "Quot.sound"}
FORBIDDEN = re.compile(r"\b(sorry|admit|native_decide|bv_decide|implemented_by)\b|^\s*axiom\s|\bunsafe\s|maxHeartbeats\s+0\b")


def strip_comments(src):
    """remove /- ... -/ (nested) and -- ... comments"""
    out = []
    i, n, depth = 0, len(src), 0
    while i < n:
        if src.startswith("/-", i):
            depth += 1
            i += 2
            continue
        if depth and src.startswith("-/", i):
            depth -= 1
            i += 2
            continue
        if depth:
            if src[i] == "\n":
                out.append("\n")
            i += 1
            continue
        if src.startswith("--", i):
            j = src.find("\n", i)
            i = n if j < 0 else j
            continue
        out.append(src[i])
        i += 1
    return "".join(out)


def scan_sources():
    """forbidden constructs outside comments in the library sources (model, proofs, props)"""
    hits = []
    for root, _dirs, files in os.walk(os.path.join(LEAN_DIR, "Hg")):
        for f in files:
            if not f.endswith(".lean"):
                continue
            p = os.path.join(root, f)
            # the driver is unverified glue and uses `partial def`; it is scanned too (no sorry there either)
            code = strip_comments(open(p).read())
            for ln, line in enumerate(code.split("\n"), 1):
                if FORBIDDEN.search(line):
                    hits.append("%s:%d: %s" % (os.path.relpath(p, LEAN_DIR), ln, line.strip()[:120]))
    return hits


def run(cmd, timeout=1800):
    t0 = time.time()
    p = subprocess.run(cmd, cwd=LEAN_DIR, capture_output=True, text=True, timeout=timeout)
    return p.returncode, p.stdout + p.stderr, time.time() - t0


def build(targets=("Hg", "hgdriver")):
    rc, out, dt = run(["lake", "build"] + list(targets))
    return rc == 0, out, dt


def audit(prop_module, theorems):
    """#print axioms for every listed theorem; returns (ok, per-theorem dict, raw output)"""
    if not theorems:
        return True, {}, ""
    os.makedirs(os.path.join(LEAN_DIR, "Audit"), exist_ok=True)
    path = os.path.join(LEAN_DIR, "Audit", prop_module.split(".")[-1] + ".lean")
    with open(path, "w") as f:
        f.write("import %s\n" % prop_module)
        for t in theorems:
            f.write("#print axioms %s\n" % t)
    rc, out, _ = run(["lake", "env", "lean", os.path.relpath(path, LEAN_DIR)], timeout=900)
    res = {}
    for t in theorems:
        m = re.search(r"'%s' depends on axioms: \[([^\]]*)\]" % re.escape(t), out)
        if m:
            ax = [a.strip() for a in m.group(1).split(",") if a.strip()]
            res[t] = {"axioms": ax, "ok": set(ax) <= ALLOWED_AXIOMS}
        elif re.search(r"'%s' does not depend on any axioms" % re.escape(t), out):
            res[t] = {"axioms": [], "ok": True}
        else:
            res[t] = {"axioms": None, "ok": False}
    ok = rc == 0 and all(v["ok"] for v in res.values())
    return ok, res, out


def leanchecker(modules):
    rc, out, dt = run(["lake", "env", "leanchecker"] + list(modules), timeout=3600)
    return rc == 0, out, dt
