import argparse
import os
import sys

HERE = os.path.dirname(os.path.abspath(__file__))
sys.path.insert(0, HERE)
os.environ.setdefault("PYTHONWARNINGS", "ignore")
import warnings

warnings.filterwarnings("ignore")


def main():
    ap = argparse.ArgumentParser()
    ap.add_argument("prop")
    ap.add_argument("--tier", default=os.environ.get("VERIF_TIER", "quick"))
    ap.add_argument("--replay")
    ap.add_argument("--cases", type=int)
    ap.add_argument("--jobs", type=int)
    a = ap.parse_args()
    seed = int(os.environ.get("VERIF_SEED", "0") or 0)
    import runner

    try:
        rc = runner.main(a.prop.lower(), tier=a.tier, seed=seed, replay=a.replay, ncases=a.cases, jobs=a.jobs)
    except SystemExit:
        raise
    except Exception:
        import traceback

        traceback.print_exc()
        rc = 2
    sys.exit(rc)


main()
