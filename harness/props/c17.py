"""C17 — user-function wrappers preserve behaviour: named / cached / serializable / strings."""
import itertools
import math
import random
import re

import numpy as np

import execs
import gen  # noqa: F401
from gen import hg
from histogrammar.util import CachedFcn, UserFcn, cached, named, serializable
from props import common

ID = "C17"
LEVEL = "proof"
LEVEL_TEXT = ("Lean 4 theorems on a model of the wrappers: the six orders of applying one name, cached and serializable give the "
              "same wrapper, a second name raises, cached/serializable are idempotent, and cached_transparent: for every call "
              "sequence the memoised wrapper returns exactly the underlying function's values (and, for partial functions, raises exactly when the function raises). Tied to /repo by running generated "
              "wrapper programs and call sequences (scalars, arrays, equal-but-distinct arrays, the same object again, keyword "
              "arguments) on the real wrappers and comparing names/classes and the hit/miss pattern of the memo with the model; "
              "string expressions from a small grammar are evaluated against the equivalent Python function on dict records, "
              "attribute records and bare scalars, interleaved on one wrapper object, and aggregators built from either are filled "
              "identically.")
LEVEL_NOTE = ("Python's compile/eval of string expressions, numpy.array_equal and marshal are contracts outside the model; the "
              "string-expression clause is decided by differential testing only (partial).")
TECHNIQUE = "Lean 4 proof (wrapper algebra, cache transparency) + correspondence of memo hit/miss pattern + differential oracle for string expressions"
LEAN_MODULE = "Hg.Props.C17"
THEOREMS = ["Hg.C17.wrappers_commute", "Hg.C17.named_twice_raises", "Hg.C17.cached_transparent", "Hg.C17.cached_transparent_partial", "Hg.C17.cached_idem"]
CASES = {"quick": 220, "thorough": 6000}
RULE = ("per case: all 6 wrapper orders on a lambda and on a string; a random call sequence of 4..14 calls over a pool of scalar / "
        "array / keyword arguments on a cached wrapper built in a random order; a random expression from the grammar evaluated on "
        "interleaved dict / attribute / scalar records through one wrapper object; distinct = hash of parameters")
SHRINK_LISTS = ["calls", "records", "hcalls"]
SHRINK_SPECS = []

ARGS = ["s1", "s2", "s2i", "a222", "a222b", "a12", "a12same", "a2", "a22", "s2np", "kw1", "kw2", "kw2b",
        "d1", "d1b", "d12", "d12b", "d34", "d12same"]
# expression templates over three record fields A, B, C (renamed per case, see NAMES)
EXPRS_MULTI = ["A + B * 2", "A > 1 and B < 3", "abs(A - B)", "(A + B) / 2.0", "A ** 2 - C", "sqrt(A * A) + C", "A if A > B else B",
               "not (A > 1)", "max(A, B, C)", "A * (B + C) - 1", "floor(A) + ceil(B)", "(A > B) or (C > 0)",
               "numpy.hypot(A, B)", "np.sqrt(A * A) + C", "numpy.abs(A) + numpy.minimum(B, C)"]
EXPRS_SINGLE = ["A + 1", "A * A", "sqrt(A * A) + 1", "A > 1", "abs(A) / 2.0", "A if A > 0 else -A", "floor(A)", "2 ** A",
                "numpy.abs(A) + 1", "np.floor(A)"]
# field names of the records; several coincide with names the evaluation namespace already holds (math.e, math.pi, ...):
# a field of a record must win over them
NAMES = [("x", "y", "z"), ("x", "y", "z"), ("e", "pt", "eta"), ("pi", "x", "tau"), ("x", "gamma", "e"), ("mass", "inf", "nan")]


def rename(expr, names):
    import re

    return re.sub(r"\b([ABC])\b", lambda m: names["ABC".index(m.group(1))], expr)


def gen_params(rng, tier):
    order = list(range(3))
    rng.shuffle(order)
    calls = [rng.choice(ARGS) for _ in range(rng.randint(4, 14))]
    multi = rng.random() < 0.5
    expr = rng.choice(EXPRS_MULTI if multi else EXPRS_SINGLE)
    recs = []
    for _ in range(rng.randint(3, 8)):
        kind = rng.choice(["dict", "attr"] + (["scalar", "scalar"] if not multi else []))
        recs.append([kind, rng.randint(-8, 12) / 4.0, rng.randint(-8, 12) / 4.0, rng.randint(-8, 12) / 4.0])
    # bare scalars have no field names: the single variable is discovered from the expression, so it must not be a known name
    names = list(rng.choice(NAMES)) if multi or not any(r[0] == "scalar" for r in recs) else ["x", "y", "z"]
    return {"order": order, "calls": calls, "expr": expr, "multi": multi, "records": recs, "name": rng.choice(["n", "myname", "q"]),
            "names": names,
            "bad": [0.0, 2.0], "hcalls": [rng.choice([0.0, 1.0, 2.0, 3.0, 0.0, 2.0]) for _ in range(rng.randint(3, 9))]}


def build(p):
    return {"ops": [("c17", p)], "expect": [("pycheck", "c17")]}


class Rec:
    def __init__(self, x, y, z, names=("x", "y", "z")):
        for n, v in zip(names, (x, y, z)):
            setattr(self, n, v)


def arg_pool():
    a222 = np.array([2.0, 2.0, 2.0])
    a12 = np.array([1.0, 2.0])
    d12 = Dict({"x": np.array([1.0, 2.0])})
    pool = {
        "s1": ((1.0,), {}), "s2": ((2.0,), {}), "s2i": ((2,), {}), "s2np": ((np.float64(2.0),), {}),
        "a222": ((a222,), {}), "a222b": ((np.array([2.0, 2.0, 2.0]),), {}), "a12": ((a12,), {}), "a12same": ((a12,), {}),
        "a2": ((np.array([2.0]),), {}), "a22": ((np.array([2.0, 2.0]),), {}),
        "kw1": ((), {"x": 1.0}), "kw2": ((), {"x": 2.0}), "kw2b": ((), {"x": np.array([2.0, 2.0])}),
        # records: a dict of scalars (one row) or of arrays (a batch, as fill.numpy passes it)
        "d1": ((Dict({"x": 1.0}),), {}), "d1b": ((Dict({"x": 1.0}),), {}),
        "d12": ((d12,), {}), "d12same": ((d12,), {}), "d12b": ((Dict({"x": np.array([1.0, 2.0])}),), {}),
        "d34": ((Dict({"x": np.array([3.0, 4.0])}),), {}),
    }
    return pool


class Dict(dict):
    """a record; arithmetic on it means arithmetic on its field x (so that one test function serves every argument)"""

    def __mul__(self, k):
        return self["x"] * k


def same_arg(x, y):
    """the argument equality a memo needs: same object, or equal values (arrays and records of arrays included)"""
    if x is y:
        return True
    if isinstance(x, dict) and isinstance(y, dict):
        return x.keys() == y.keys() and all(same_arg(x[k], y[k]) for k in x)
    if isinstance(x, dict) or isinstance(y, dict):
        return False
    return bool(np.array_equal(x, y))


def same_value(a, b):
    if isinstance(a, np.ndarray) or isinstance(b, np.ndarray):
        return isinstance(a, np.ndarray) and isinstance(b, np.ndarray) and a.shape == b.shape and bool(np.all(a == b))
    return type(a) is type(b) and a == b or (not isinstance(a, bool) and not isinstance(b, bool) and a == b)


def token_of(args, kwds, tokens):
    """abstract token of an argument tuple under the comparison CachedFcn performs: `is`, else
    numpy.array_equal (which requires equal shapes)"""
    for tok, (a2, k2) in enumerate(tokens):
        if len(a2) == len(args) and set(k2) == set(kwds):
            if all(same_arg(x, y) for x, y in zip(args, a2)) and all(same_arg(kwds[k], k2[k]) for k in kwds):
                return tok
    tokens.append((args, kwds))
    return len(tokens) - 1


class C17Exec(execs.PyExec):
    def __init__(self):
        super().__init__()
        self.msgs = []
        self.model_queries = []

    def apply(self, op):
        if op[0] != "c17":
            return super().apply(op)
        p = op[1]
        try:
            self.run(p)
        except Exception as e:  # noqa: BLE001
            import traceback

            self.msgs.append("wrapper machinery crashed: %s: %s | %s" % (type(e).__name__, e, traceback.format_exc()[-300:]))
        return "ok"

    def run(self, p):
        msgs = self.msgs
        nm = p["name"]
        wrappers = [lambda f: named(nm, f), cached, serializable]
        wnames = ["named:" + nm, "cached", "serializable"]
        # 1. every order of the three wrappers, on a function and on a string expression
        for base_i, base in enumerate((lambda x: x * 2 + 1, "x * 2 + 1")):
            results = []
            for perm in itertools.permutations(range(3)):
                if base_i == 1 and perm[0] != 0:
                    # known finding C17-implicit-name: a string expression (or a def) gets its text as an implicit
                    # name when it is first wrapped, so named() applied after cached()/serializable() raises
                    continue
                f = base
                for i in perm:
                    arg = f
                    snap = (type(arg), getattr(arg, "name", None), getattr(arg, "expr", None))
                    f = wrappers[i](f)
                    # a wrapper describes a new function object; the one it was applied to stays what it was (it may be in
                    # use elsewhere: one cached quantity given two names for two members of a collection)
                    if (type(arg), getattr(arg, "name", None), getattr(arg, "expr", None)) != snap:
                        msgs.append("%s changed the function object it was applied to: (type, name, expr) %r -> %r"
                                    % (wnames[i], snap, (type(arg), getattr(arg, "name", None), getattr(arg, "expr", None))))
                    elif i == 0 and isinstance(arg, UserFcn):
                        try:
                            again = named(nm + "2", arg)
                            if again.name != nm + "2" or getattr(arg, "name", None) is not None:
                                msgs.append("a second, independent naming of one unnamed wrapper went wrong: %r, %r" % (again, arg))
                        except ValueError as e:
                            msgs.append("an unnamed wrapper that was passed to named() once cannot be named independently again: %s" % e)
                results.append(f)
                if base_i == 0:
                    self.model_queries.append(("wrap", base_i, [wnames[i] for i in perm], (f.name, isinstance(f, CachedFcn))))
            for f in results[1:]:
                if not (f == results[0]) or f.name != nm or type(f) is not type(results[0]):
                    msgs.append("wrapper orders disagree: %r vs %r" % (f, results[0]))
            if not isinstance(results[0], CachedFcn):
                msgs.append("cached(...) did not yield a CachedFcn")
            for perm in itertools.permutations(range(3)):
                if base_i == 1 and perm[0] != 0:
                    continue
                f = base
                for i in perm:
                    f = wrappers[i](f)
                try:
                    named("other", f)
                    msgs.append("applying a second name did not raise")
                except ValueError:
                    pass
            if serializable(results[0]) is not results[0] or cached(results[0]) is not results[0]:
                msgs.append("serializable/cached are not idempotent on an already wrapped function")
        # 2. transparency of the cache under interleaved calls
        count = [0]

        def _g(*args, **kwds):
            count[0] += 1
            x = args[0] if args else kwds["x"]
            return x * 2 + 1

        g = lambda *args, **kwds: _g(*args, **kwds)  # noqa: E731 - a lambda has no implicit name (finding C17-implicit-name)
        f = g
        for i in p["order"]:
            f = wrappers[i](f)
        pool = arg_pool()
        tokens, toks, misses = [], [], []
        for c in p["calls"]:
            args, kwds = pool[c]
            before = count[0]
            got = f(*args, **kwds)
            misses.append(count[0] != before)
            want = (args[0] if args else kwds["x"]) * 2 + 1
            if not same_value(got, want):
                msgs.append("cached wrapper returned %r for argument %s, the function returns %r (calls so far: %s)"
                            % (got, c, want, p["calls"]))
                break
            toks.append(token_of(args, kwds, tokens))
        self.model_queries.append(("cachedrun", toks, misses[:len(toks)]))
        # 2b. a function that raises for some arguments: the wrapper raises whenever the function would, however often the
        # failing argument is repeated and whatever was cached before
        def _h(x):
            if x in p.get("bad", [0.0]):
                raise ZeroDivisionError("bad argument")
            return x * 3 - 1

        fh = lambda x: _h(x)  # noqa: E731
        for i in p["order"]:
            fh = wrappers[i](fh)
        for x in p.get("hcalls", []):
            try:
                want, wraise = _h(x), False
            except ZeroDivisionError:
                want, wraise = None, True
            try:
                got, graise = fh(x), False
            except ZeroDivisionError:
                got, graise = None, True
            if wraise != graise or (not wraise and got != want):
                msgs.append("cached wrapper of a partial function: call with %r %s, the function itself %s (calls %r, failing arguments %r)"
                            % (x, "raised" if graise else "returned %r" % (got,), "raises" if wraise else "returns %r" % (want,),
                               p.get("hcalls"), p.get("bad")))
                break
        # 3. string expression against the equivalent Python function, interleaved record kinds on one wrapper
        names = p.get("names") or ["x", "y", "z"]
        template = p["expr"]
        if not re.search(r"\b[ABC]\b", template):
            # replay files written before the fields were renamed hold the expression over x, y, z
            template = re.sub(r"\b([xyz])\b", lambda m: "ABC"["xyz".index(m.group(1))], template)
            names = ["x", "y", "z"]
        ns = dict(math.__dict__)
        ns["numpy"] = ns["np"] = np   # documented: the full module name and its usual alias are available in expressions
        ref = eval("lambda A, B=0.0, C=0.0: " + template, ns)  # noqa: S307 - the reference function
        expr = rename(template, names)
        u = UserFcn(expr)
        c = cached(expr)
        for kind, x, y, z in p["records"]:
            want = ref(x, y, z)
            if kind == "dict":
                d = {names[0]: x, names[1]: y, names[2]: z}
            elif kind == "attr":
                d = Rec(x, y, z, names)
            else:
                d = x
                want = ref(x)
            for w, wn in ((u, "UserFcn"), (c, "CachedFcn")):
                try:
                    got = w(d)
                except Exception as e:  # noqa: BLE001
                    msgs.append("%s(%r) raised %s on a %s record: %s" % (wn, expr, type(e).__name__, kind, e))
                    break
                if not same_value(got, want):
                    msgs.append("%s(%r) on a %s record (x=%r, y=%r, z=%r) gives %r, the Python function gives %r"
                                % (wn, expr, kind, x, y, z, got, want))
                    break
        # aggregators built from the string and from the function are filled identically
        if not isinstance(ref(1.0, 1.0, 1.0), bool):
            n0, n1, n2 = names
            rows = [{n0: r[1], n1: r[2], n2: r[3]} for r in p["records"]]
            hs = hg.Bin(4, -2.0, 6.0, expr, hg.Sum(expr))
            hf = hg.Bin(4, -2.0, 6.0, lambda d: ref(d[n0], d[n1], d[n2]), hg.Sum(lambda d: ref(d[n0], d[n1], d[n2])))
            for r in rows:
                hs.fill(r)
                hf.fill(r)
            js, jf = execs.canon_doc(hs.toJson()), execs.canon_doc(hf.toJson())
            for j in (js, jf):
                j["data"].pop("name", None)
                j["data"].pop("values:name", None)
            d = execs.diff_doc(js, jf)
            if d:
                msgs.append("an aggregator built from the string %r is filled differently from one built from the function: %s" % (expr, d))


def make_py():
    return C17Exec()


execs.PY_ONLY_OPS.add("c17")


def post_model(py, model):
    from wire import doc_to_wire

    for q in py.model_queries:
        if q[0] == "wrap":
            r = model.d.send(["$wrap", "#%d" % q[1], ["$" + o for o in q[2]]])
            want = [q[3][0], q[3][1]]
            if r != want:
                return {"what": "wrapper algebra: model gives %r, implementation %r for %s" % (r, want, q[2])}
        else:
            r = model.d.send(["$cachedrun", ["#%d" % t for t in q[1]]])
            hits = [not m for m in q[2]]
            if r != hits:
                return {"what": "memo hit/miss pattern: model %r, implementation %r (argument tokens %r)" % (r, hits, q[1])}
    return None


@common.pycheck("c17")
def _c17(py, replies):
    return py.msgs[0] if py.msgs else None


def oracle(case, py, replies):
    return common.eval_expect(case, py, replies)


def stats(case, py, replies):
    return {"nontrivial": 1, "calls": len(case["params"]["calls"]), "records": len(case["params"]["records"])}
