"""C04 — JSON serialisation is lossless, strict and yields a fully usable container."""
import json
import os
import tempfile

import execs
import gen
from gen import hg
from histogrammar.defs import Factory
from props import common

ID = "C04"
LEVEL = "proof"
LEVEL_TEXT = 'Lean 4 theorems over the transcription of every toJsonFragment/fromJsonFragment/ed: decode(encode t) = immut t for all 19 primitives at any nesting (lossless, names and empty sparse containers included), identical re-serialisation, strictness (no null, non-finite numbers as strings), and interchangeability of the reload with the original under zero(), *, + and copy(); tied to /repo by round trips of generated states through the real Factory.fromJson (directly, via string, via file) with the reloaded container used in +, *, zero(), copy(), alone and mixed with live containers. Also proved (history_roundtrip): every state reachable by an operation history from an empty tree that is uniform through its templates round-trips, the hypothesis being evaluated on every generated empty tree.'
LEVEL_NOTE = "Python's json module (text level) is trusted; known finding C04-bool-category (bool-valued categories) is excluded from the generator. Hypotheses good/uniform/knownCtype are executable and evaluated on the model's copy of every serialised state."
TECHNIQUE = 'Lean 4 proof (codec round trip for all primitives) + correspondence through the real JSON codec + oracle'
LEAN_MODULE = "Hg.Props.C04"
THEOREMS = ["Hg.C04.decode_encode", "Hg.C04.decode_encode_live", "Hg.C04.encode_immut", "Hg.C04.encode_noNull", "Hg.C04.decode_encode_immut", "Hg.C04.good_immut", "Hg.C04.zero_immut", "Hg.C04.mul_immut", "Hg.C04.add_immut", "Hg.C04.copy_immut", "Hg.C04.history_roundtrip"]
CASES = {"quick": 300, "thorough": 10000}
RULE = ("random tree (19 primitives in every child/flow position, named and unnamed quantities, depth<=3), two filled states "
        "a, b (possibly empty; optionally pre-combined with + / * / copy), serialised, reloaded and used in +, *, zero(), copy() "
        "alone and mixed with live containers; distinct = hash of parameters; non-trivial = some fill passed the gate")
SHRINK_LISTS = ["sa", "sb"]


def gen_params(rng, tier):
    # a third of the cases: the naming matrix of one container (own quantity / bin content / flows named or not)
    spec = gen.gen_name_matrix_spec(rng) if rng.random() < 0.3 else gen.gen_spec(rng, rng.randint(0, 3))
    return {"spec": spec,
            "sa": [[d, w] for d, w in gen.gen_stream(rng, spec, rng.randint(0, 9))],
            "sb": [[d, w] for d, w in gen.gen_stream(rng, spec, rng.randint(0, 6))],
            "pre": rng.choice(["none", "none", "add", "mul", "copy", "mul0", "npint", "npf4"]),
            # integral numeric data for the vectorised fills from int64 / float32 arrays ("npint", "npf4")
            "nprows": [[[float(rng.randint(-4, 9)) for _ in range(4)] + ["a", rng.random() < 0.5, [1.0, 0.5], "b"], 1.0] for _ in range(rng.randint(2, 6))],
            "f": rng.choice([0.5, 2.0, 3.0, 0.25, 0.0, -1.0])}


def build(p):
    spec = p["spec"]
    sa = [(r[0], r[1]) for r in p["sa"]]
    sb = [(r[0], r[1]) for r in p["sb"]]
    ops = [("new", "a0", spec), ("fills", "a0", sa), ("new", "b", spec), ("fills", "b", sb)]
    pre = p["pre"]
    if pre == "add":
        ops.append(("add", "a", "a0", "b"))
    elif pre == "mul":
        ops.append(("mul", "a", "a0", 2.0))
    elif pre == "mul0":
        ops.append(("mul", "a", "a0", 0.0))
    elif pre == "copy":
        ops.append(("copy", "a", "a0"))
    elif pre in ("npint", "npf4") and any("q" in s_ for s_ in gen.walk(spec)) and not any(s_["k"] == "Sum" for s_ in gen.walk(spec)) and p.get("nprows"):
        # two successive vectorised fills from an integer / single-precision array, ascending so that extrema move each time
        nr = sorted([(r[0], r[1]) for r in p["nprows"]], key=lambda r: r[0][0])
        half = max(1, len(nr) // 2)
        ops.append(("copy", "a", "a0"))
        ops.append(("fillsnp", "a", nr[:half], "array", "i8" if pre == "npint" else "f4"))
        ops.append(("fillsnp", "a", nr[half:], "array", "i8" if pre == "npint" else "f4"))
    else:
        ops.append(("add", "a", "a0", "a0"))
    expect = []
    for name in ("good", "uniform", "knownctype"):
        ops.append(("mcheck", [name, "a"], True))
    # the hypothesis of history_roundtrip on the empty tree: uniform through every template
    ops.append(("new", "zt", spec))
    ops.append(("mcheck", ["uniformt", "zt"], True))
    i_load = len(ops)
    ops.append(("roundtrip", "r", "a"))
    expect.append(("reply", i_load, "ok", "Factory.fromJson rejected a toJson() document"))
    expect.append(("eqdoc", "r", "a", "reload re-serialises to a different document"))
    expect.append(("pycheck", "c04_strict_string_file", "a"))
    expect.append(("pycheck", "c04_names", "a", "r"))
    ops.append(("roundtrip", "r2", "r"))
    ops.append(("eq", "r", "r2", 0, 0))
    expect.append(("reply", len(ops) - 1, True, "two reloads of one document compare unequal"))
    ops.append(("roundtrip", "rb", "b"))
    # interchangeable under +, *, zero(), copy()
    ops.append(("add", "ab", "a", "b"))
    for name, x, y in (("rab", "r", "rb"), ("rab_mixed1", "r", "b"), ("rab_mixed2", "a", "rb")):
        ops.append(("add", name, x, y))
        expect.append(("noraise", len(ops) - 1, "+ on reloaded containers raised"))
        expect.append(("eqdoc", name, "ab", "reloaded + gives different content than live +"))
    f = p["f"]
    ops.append(("mul", "am", "a", f))
    ops.append(("mul", "rm", "r", f))
    expect.append(("eqdoc", "rm", "am", "reloaded * f differs from live * f"))
    ops.append(("zero", "az", "a"))
    ops.append(("zero", "rz", "r"))
    expect.append(("eqdoc", "rz", "az", "reloaded.zero() differs from live.zero()"))
    ops.append(("copy", "rc", "r"))
    expect.append(("noraise", len(ops) - 1, "copy() of a reloaded container raised"))
    expect.append(("eqdoc", "rc", "a", "reloaded.copy() differs"))
    ops.append(("roundtrip", "rzr", "rz"))
    expect.append(("eqdoc", "rzr", "az", "zero() of a reload does not survive a second round trip"))
    ops.append(("roundtrip", "rmr", "rm"))
    expect.append(("eqdoc", "rmr", "am", "reloaded * f does not survive a second round trip"))
    return {"ops": ops, "expect": expect}


def _qnames(o, depth=0, out=None):
    """(depth, primitive, quantity name) of every node that was or can be filled (templates excepted)"""
    import histogrammar as _hg

    out = [] if out is None else out
    q = getattr(o, "quantity", None)
    out.append((depth, o.name, getattr(q, "name", None)))
    tmpl = o.__dict__.get("value") if isinstance(o, (_hg.SparselyBin, _hg.Categorize, _hg.CentrallyBin)) else None
    for c in o.children:
        if c is None or c is tmpl:
            continue
        _qnames(c, depth + 1, out)
    return out


@common.pycheck("c04_names")
def _names(py, replies, a, r):
    """the reload carries the same quantity names as the original, node by node (the document alone cannot show a name
    that toJson failed to write)"""
    if a not in py.pool or r not in py.pool:
        return None
    na = sorted(_qnames(py.pool[a]), key=repr)
    nr = sorted(_qnames(py.pool[r]), key=repr)
    if na != nr:
        diff = [x for x in na if x not in nr][:3]
        return "the reloaded container does not carry the quantity names of the original: %r missing after the round trip" % (diff,)
    return None


@common.pycheck("c04_strict_string_file")
def _strict(py, replies, h):
    obj = py.pool[h]
    doc = obj.toJson()
    try:
        text = json.dumps(doc, allow_nan=False)
    except ValueError as e:
        return "toJson() is not strict JSON (allow_nan=False): %s" % e
    want = execs.canon_doc(doc)
    via_str = Factory.fromJsonString(obj.toJsonString())
    d = execs.diff_doc(execs.canon_doc(via_str.toJson()), want)
    if d:
        return "round trip via string differs: %s" % d
    fd, path = tempfile.mkstemp(suffix=".json", prefix="hgverif")
    os.close(fd)
    try:
        with open(path, "w") as f:
            f.write(text)
        via_file = Factory.fromJsonFile(path)
    finally:
        os.remove(path)
    d = execs.diff_doc(execs.canon_doc(via_file.toJson()), want)
    if d:
        return "round trip via file differs: %s" % d
    imm = obj.toImmutable()
    if not (imm == via_str) or (imm != via_str):
        return "the JSON reload does not compare equal to the immutable form of the original"
    return None


def infinite_check(p):
    """Implementation-level (an infinite weight is outside the model's good runs): after fills with an infinite weight every
    total is 'inf' (and some statistics 'nan'); the document is still strict JSON, loads, and re-serialises to itself."""
    import random

    rows = [(r[0], r[1]) for r in p["sa"]][:3]
    if not rows:
        return []
    # the case's own tree, and a plain histogram (binning containers over Counts: every bin content is a bare number in the
    # document) drawn from the case
    rng = random.Random(len(p["sa"]) * 131 + len(p["sb"]) * 17 + int(abs(float(p["f"])) * 8))
    plain = gen.gen_spec(rng, rng.randint(1, 2), kinds=["Bin", "SparselyBin", "CentrallyBin", "IrregularlyBin", "Categorize", "Stack", "Select", "Count"])
    out = []
    for spec in (p["spec"], plain):
        out += _infinite_one(spec, rows)
        if out:
            break
    return out


def _infinite_one(spec, rows):
    try:
        h = gen.build(spec)
    except Exception:  # noqa: BLE001
        return []
    try:
        for i, (d, w) in enumerate(rows):
            h.fill(d, float("inf") if i != 1 else w)
    except Exception:  # noqa: BLE001
        return []   # a quantity that raises on this record, or a type error: not about serialisation
    try:
        doc = h.toJson()
        json.dumps(doc, allow_nan=False)
    except Exception as e:  # noqa: BLE001
        return ["after fills with an infinite weight toJson() is not strict JSON: %s: %s" % (type(e).__name__, str(e)[:200])]
    try:
        r = Factory.fromJson(doc)
    except Exception as e:  # noqa: BLE001
        return ["after fills with an infinite weight Factory.fromJson rejects the toJson() document: %s: %s" % (type(e).__name__, str(e)[:200])]
    d = execs.diff_doc(execs.canon_doc(r.toJson()), execs.canon_doc(doc))
    if d:
        return ["after fills with an infinite weight the reload re-serialises to a different document: %s" % d]
    # scaled by an infinite factor: filled bins become inf, empty ones NaN (0 * inf)
    try:
        m = gen.build(spec)
        for dd, w in rows:
            m.fill(dd, 1.0)
        m = m * float("inf")
    except Exception:  # noqa: BLE001
        return []
    try:
        doc = m.toJson()
        json.dumps(doc, allow_nan=False)
        r = Factory.fromJson(doc)
    except Exception as e:  # noqa: BLE001
        return ["an aggregator scaled by an infinite factor does not survive a strict-JSON round trip: %s: %s" % (type(e).__name__, str(e)[:200])]
    d = execs.diff_doc(execs.canon_doc(r.toJson()), execs.canon_doc(doc))
    if d:
        return ["an aggregator scaled by an infinite factor reloads to a different document: %s" % d]
    return []


def oracle(case, py, replies):
    from runner import dec

    return common.eval_expect(case, py, replies) + infinite_check(dec(case["params"]))


stats = common.basic_stats
