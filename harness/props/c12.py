"""C12 — a fill that raises leaves the aggregator as if the record had been skipped."""
import execs
import gen
import refeval
from props import common
from wire import RAISES, WRONG

ID = "C12"
LEVEL = "proof"
LEVEL_TEXT = "Lean 4 theorems over a model of fill that follows the code's order of effects: on every good single-path tree a raising fill returns the tree unchanged (any depth of the failing quantity, both failure modes), hence skipping failed records over any stream yields exactly the aggregate of the surviving records. Tied to /repo by streams with faults injected at random positions and depths (quantity raises / returns a wrong type), comparing state before/after each failing fill and the final state with the reference evaluation of the survivors, on implementation and model."
LEVEL_NOTE = 'good (distinct child keys, well-formed state) is an executable hypothesis checked on the run; fan-out collections are outside the property and outside the theorem.'
TECHNIQUE = 'Lean 4 proof (rollback by induction on the tree; skip-on-fault by induction on the stream) + fault-injection correspondence + oracle'
LEAN_MODULE = "Hg.Props.C12"
THEOREMS = ["Hg.C12.fill_fault_rollback", "Hg.C12.skip_on_fault"]
CASES = {"quick": 300, "thorough": 10000}
RULE = ("random single-path tree (Bin, SparselyBin, CentrallyBin, IrregularlyBin, Categorize, Select nested arbitrarily over any "
        "leaf), stream of <=14 records in which a random subset of positions carries a faulting cell (quantity raises / returns a "
        "wrong type) in a column some node of the tree reads, so the fault sits at a random depth; every failing fill must leave "
        "the serialised tree unchanged and the final state must equal the aggregate of the surviving records (reference "
        "evaluator); distinct = hash of parameters; non-trivial = at least one fill raised")
SHRINK_LISTS = ["stream"]

SINGLE_KINDS = gen.LEAVES + gen.SINGLE


def used_columns(spec):
    cols = set()
    for s in gen.walk(spec):
        if "q" in s:
            cols.add(s["q"][0])
    return sorted(cols)


def gen_params(rng, tier):
    spec = gen.gen_spec(rng, rng.randint(1, 4), kinds=SINGLE_KINDS)
    for node in gen.walk(spec):
        if "q" in node and rng.random() < 0.3:
            node["q"] = [node["q"][0], node["q"][1], "cached"]   # a memoised quantity
    cols = used_columns(spec) or [0]
    stream = []
    crit = gen.critical_values(spec)
    for _ in range(rng.randint(1, 14)):
        d = gen.gen_datum(rng, crit)
        w = gen.gen_weight(rng, 0.1)
        if rng.random() < 0.35:
            # (a memoised quantity is the failing one more often than its share of the columns: the memo must not answer
            # the repeated failing record with what it computed for an earlier one)
            ccols = [n["q"][0] for n in gen.walk(spec) if "q" in n and len(n["q"]) > 2 and n["q"][2] == "cached"]
            c_ = rng.choice(ccols) if ccols and rng.random() < 0.6 else rng.choice(cols)
            d[c_] = RAISES if (rng.random() < 0.5 or c_ in ccols) else WRONG
            stream.append([d, w])
            if rng.random() < (0.6 if c_ in ccols else 0.3):
                stream.append([list(d), w])   # the same failing record again (a memoised quantity must fail again)
            continue
        stream.append([d, w])
    # the tree may be the result of an earlier operation on a freshly built one (still empty)
    return {"spec": spec, "stream": stream, "pre": rng.choice(["none", "none", "copy", "addzero", "mul1", "pickle", "zero"])}


def build(p):
    stream = [(r[0], r[1]) for r in p["stream"]]
    pre = p.get("pre", "none")
    if pre == "none":
        ops = [("new", "a", p["spec"])]
    else:
        ops = [("new", "a0", p["spec"])]
        ops += {"copy": [("copy", "a", "a0")],
                "addzero": [("zero", "z0", "a0"), ("add", "a", "a0", "z0")],
                "mul1": [("mul", "a", "a0", 1.0)],
                "pickle": [("pickle", "a", "a0")],
                "zero": [("zero", "a", "a0")]}[pre]
    ops += [("mcheck", ["singlepath", "a"], True), ("mcheck", ["good", "a"], True)]
    first = len(ops)
    expect = []
    for d, w in stream:
        ops.append(("snap", "pre", "a"))
        ops.append(("fill", "a", d, w))
        ops.append(("checksnap_if_raised", "pre", "a", "a raising fill left a trace"))
    expect.append(("pycheck", "c12_survivors", "a", first))
    return {"ops": ops, "expect": expect}


@common.pycheck("c12_survivors")
def _survivors(py, replies, h, first=3):
    p = py.case_params
    stream = [(r[0], r[1]) for r in p["stream"]]
    fills = [r for r in replies if isinstance(r, str) and (r == "ok" or r.startswith("raise")) ]
    # replies of the fill ops, in order (snap/check ops reply "ok" too: take every third starting at index 2)
    outcome = [replies[first + 3 * i + 1] for i in range(len(stream))]
    surv = [dw for dw, o in zip(stream, outcome) if o == "ok"]
    want = execs.canon_doc(refeval.reference_doc(p["spec"], surv))
    d = execs.diff_doc(py.state(h), want)
    return ("final state is not the aggregate of the records that did not fail: %s" % d) if d else None


def transform_fault_check(p):
    """Implementation-level (weight transforms of Count are outside the tree model): every Count of the tree gets a transform
    that raises, or returns a non-number, for one particular weight of the stream.  Filling the whole stream under
    try/except must give exactly the aggregate of the records whose fill does not raise (decided on an empty tree)."""
    spec = p["spec"]
    stream = [(r[0], r[1]) for r in p["stream"]]
    pos = [w for _, w in stream if isinstance(w, (int, float)) and w > 0 and w != float("inf")]
    if not pos or not any(s_["k"] == "Count" for s_ in gen.walk(spec)):
        return []
    bad_w = pos[len(pos) // 2]
    wrong = len(stream) % 2 == 0

    wrong_val = ["oops", "6.0", None, [1.0], "1e3", complex(2.0, 0.0)][(len(stream) // 2) % 6]

    def f(w):
        if w == bad_w:
            if wrong:
                return wrong_val
            raise ZeroDivisionError("transform failed")
        return w

    def f_raise(w):
        if w == bad_w:
            raise ZeroDivisionError("transform failed")
        return w

    real_count = gen.hg.Count

    def build_t(fn=f):
        gen.hg.Count = lambda *a, **kw: real_count(fn)
        try:
            return gen.build(spec)
        finally:
            gen.hg.Count = real_count

    try:
        a, b = build_t(), build_t()
    except Exception:  # noqa: BLE001
        return []
    raised = 0
    for d, w in stream:
        try:
            a.fill(d, w)
        except Exception:  # noqa: BLE001
            raised += 1
        try:
            build_t().fill(d, w)   # whether a fill raises does not depend on the state (C02 fill_ok_indep): ask an empty tree
        except Exception:  # noqa: BLE001
            continue
        b.fill(d, w)
    try:
        da, db = execs.canon_doc(a.toJson()), execs.canon_doc(b.toJson())
    except Exception as e:  # noqa: BLE001
        return ["Counts whose transform %s for weight %r: after %d raising fills the aggregator cannot be serialised: %s: %s"
                % (("returns %r" % (wrong_val,)) if wrong else "raises", bad_w, raised, type(e).__name__, str(e)[:160])]
    if wrong:
        # a transform returning a non-number must behave exactly like one that raises for the same weight: the fill raises and
        # leaves no trace (decided against the twin whose transform raises, not against what the implementation accepts)
        c = build_t(f_raise)
        for d, w in stream:
            try:
                c.fill(d, w)
            except Exception:  # noqa: BLE001
                pass
        dc = execs.diff_doc(da, execs.canon_doc(c.toJson()))
        if dc:
            return ["Counts whose transform returns the non-number %r for weight %r: the stream filled under try/except differs from "
                    "the same stream with a transform that raises for that weight (the wrong-typed result was accepted or left a trace): %s"
                    % (wrong_val, bad_w, dc)]
    dd = execs.diff_doc(da, db)
    if dd:
        return ["Counts whose transform %s for weight %r: the stream filled under try/except (%d fills raised) differs from the "
                "aggregate of the records whose fill does not raise: %s" % (("returns %r" % (wrong_val,)) if wrong else "raises", bad_w, raised, dd)]
    return []


def oracle(case, py, replies):
    from runner import dec

    py.case_params = dec(case["params"])
    return common.eval_expect(case, py, replies) + transform_fault_check(py.case_params)


def stats(case, py, replies):
    st = common.basic_stats(case, py, replies)
    st["nontrivial"] = 1 if st["raising_ops"] > 0 else 0
    return st
