"""C16 — one aggregator placed at two positions of a tree is detected, not double-filled."""
import copy

import execs
import gen
from gen import hg
from histogrammar.defs import Container, ContainerException
from props import common

ID = "C16"
LEVEL = "proof"
LEVEL_TEXT = ("Lean 4 theorems about the transcription of _checkForCrossReferences on trees of object identities (Shape): a tree in "
              "which some identity occurs twice among the fillable positions (siblings, cousins, a node and its own descendant) is "
              "rejected on the first and on every later fill, whatever flags earlier walks left; a tree with pairwise distinct "
              "identities is accepted and fully marked. Tied to /repo by shipping the identity shape of real (aliased and alias-free) "
              "trees to the model and comparing its verdict and the flags with the implementation's, plus the oracle "
              "(ContainerException before any state change, row-wise and vectorised, first and later fills).")
LEVEL_NOTE = ("CPython object identity is the meaning of 'same object'; the shape (children minus the never-filled template) is read "
              "off the real objects by the harness. The walk is modelled, the call sites (`fill`, `fill.numpy` of every primitive "
              "calling it first) are covered by the oracle only.")
TECHNIQUE = "Lean 4 proof on an identity-shape model of the cross-reference walk + shape correspondence + oracle"
LEAN_MODULE = "Hg.Props.C16"
THEOREMS = ["Hg.C16.shared_rejected", "Hg.C16.shared_rejected_again", "Hg.C16.linear_accepted", "Hg.C16.walk_some_iff"]
CASES = {"quick": 260, "thorough": 8000}
RULE = ("random tree in which one object is installed at a second random position (sibling, cousin, own descendant), or no aliasing "
        "at all (incl. two sparse containers sharing one template object and default-argument children); then row-wise and "
        "vectorised fills, first and later; distinct = hash of parameters; non-trivial = aliased trees")
SHRINK_LISTS = ["rows"]
SHRINK_SPECS = []

ADOPTING = ("Label", "UntypedLabel", "Index", "Branch", "Select")


def slots(spec, path=()):
    """positions whose object can be replaced after construction: members of collections, Select.cut,
    Bin values/flows, Fraction numerator/denominator"""
    k = spec["k"]
    out = []
    if k in ("Label", "UntypedLabel"):
        for n, s in spec["pairs"].items():
            out.append(path + (("pairs", n),))
            out += slots(s, path + (("pairs", n),))
    elif k in ("Index", "Branch"):
        for i, s in enumerate(spec["values"]):
            out.append(path + (("values", i),))
            out += slots(s, path + (("values", i),))
    elif k == "Select":
        out.append(path + (("cut",),))
        out += slots(spec["cut"], path + (("cut",),))
    elif k == "Bin":
        for fl in ("underflow", "overflow", "nanflow"):
            out.append(path + ((fl,),))
            out += slots(spec[fl], path + ((fl,),))
        for i in range(spec["n"]):
            out.append(path + (("values", i),))
        out += slots(spec["value"], path + (("values", 0),))
    elif k == "Fraction":
        out.append(path + (("numerator",),))
        out.append(path + (("denominator",),))
        out += slots(spec["value"], path + (("numerator",),))
    elif k in ("SparselyBin", "CentrallyBin", "IrregularlyBin", "Stack"):
        out.append(path + (("nanflow",),))
        if k != "SparselyBin":
            # the bins of CentrallyBin / IrregularlyBin / Stack exist from construction on: (key, sub-aggregator) pairs
            nb = len(spec["centers"]) if k == "CentrallyBin" else len(spec["edges"]) + 1
            for i in range(nb):
                out.append(path + (("bins", i),))
            out += slots(spec["value"], path + (("bins", 0),))
    return out


def get_at(obj, path):
    for step in path:
        if step[0] in ("pairs",):
            obj = obj.pairs[step[1]]
        elif step[0] == "values":
            obj = obj.values[step[1]]
        elif step[0] == "bins":
            obj = obj.bins[step[1]][1]
        else:
            obj = getattr(obj, step[0])
    return obj


def set_at(root, path, new):
    parent = get_at(root, path[:-1])
    step = path[-1]
    if step[0] == "pairs":
        parent.pairs[step[1]] = new
    elif step[0] == "values":
        vals = list(parent.values)
        vals[step[1]] = new
        parent.values = tuple(vals) if isinstance(parent.values, tuple) else vals
        if isinstance(parent, hg.Branch):
            setattr(parent, "i%d" % step[1], new)
    elif step[0] == "bins":
        bins = list(parent.bins)
        bins[step[1]] = (bins[step[1]][0], new)
        parent.bins = tuple(bins) if isinstance(parent.bins, tuple) else bins
    else:
        setattr(parent, step[0], new)


def gen_params(rng, tier):
    for _ in range(200):
        spec = gen.gen_spec(rng, rng.randint(1, 3), kinds=gen.ALL_KINDS)
        sl = slots(spec)
        mode = rng.choice(["alias", "alias", "alias", "none", "template"])
        if mode == "alias":
            if len(sl) < 1:
                continue
            # flow positions (a nanflow next to a never-filled template) are as likely as all the others together
            flows = [s for s in sl if s[-1][0] in ("nanflow", "underflow", "overflow")]
            dst = rng.choice(flows) if flows and rng.random() < 0.4 else rng.choice(sl)
            # source: another slot (sibling/cousin), or an ancestor position (own descendant)
            cands = [s for s in sl if s != dst and s[:len(dst)] != dst]
            anc = [dst[:i] for i in range(0, len(dst))]
            fl2 = [s for s in cands if s[-1][0] in ("nanflow", "underflow", "overflow")]
            src = (rng.choice(fl2) if fl2 and rng.random() < 0.4 else rng.choice(cands + anc)) if (cands or anc) else None
            if src is None:
                continue
            kind = "ancestor" if src in anc else "other"
        else:
            src, dst, kind = None, None, mode
        crit = gen.critical_values(spec)
        rows = []
        for _i in range(rng.randint(2, 5)):
            d = gen.gen_datum(rng, crit)
            if d[gen.STR_COL] is None:
                d[gen.STR_COL] = "NaN"
            rows.append([d, 1.0])
        return {"spec": spec, "src": src, "dst": dst, "kind": kind, "rows": rows,
                "np": any("q" in s for s in gen.walk(spec)),
                # the shared aggregator may have been used (filled, serialised) on its own before it was installed twice
                "prefill": rng.choice([0, 0, 1, 2])}
    raise RuntimeError("no aliasable tree")


def build(p):
    return {"ops": [("c16", p)], "expect": [("pycheck", "c16")]}


def shape_of(obj, seen_templates=True):
    """identity shape as the cross-reference walk sees it: children minus the template"""
    tmpl = obj.__dict__.get("value")
    kids = [c for c in obj.children if c is not tmpl and c is not None]
    return [id(obj) % (10 ** 12), bool(obj._checkedForCrossReferences), [shape_of(c) for c in kids]]


def cyclic(obj, stack=()):
    if any(o is obj for o in stack):
        return True
    tmpl = obj.__dict__.get("value")
    return any(cyclic(c, stack + (obj,)) for c in obj.children if c is not tmpl and c is not None)


def content_ids(obj, acc=None, stack=()):
    acc = acc if acc is not None else []
    if any(o is obj for o in stack):
        return acc
    acc.append(id(obj))
    tmpl = obj.__dict__.get("value")
    for c in obj.children:
        if c is not tmpl and c is not None:
            content_ids(c, acc, stack + (obj,))
    return acc


class C16Exec(execs.PyExec):
    def __init__(self):
        super().__init__()
        self.result = None
        self.shape_queries = []

    def apply(self, op):
        if op[0] != "c16":
            return super().apply(op)
        p = op[1]
        t = gen.build(p["spec"])
        aliased = False
        if p["kind"] in ("ancestor", "other"):
            obj = get_at(t, [tuple(s) for s in p["src"]])
            if p.get("prefill") and p["kind"] == "other":
                # filled on its own first (row-wise or vectorised): it then carries whatever bookkeeping a fill leaves
                pre = p["rows"][0][0] if p["rows"] else [0.5, 0.5, 0.5, 0.5, "a", True, [1.0, 0.0], "a"]
                try:
                    if p["prefill"] == 2 and p["np"]:
                        import numpy as _np

                        obj.fill.numpy(execs.np_columns([pre]), _np.ones(1))
                    else:
                        obj.fill(pre, 1.0)
                except Exception:  # noqa: BLE001 - a sub-aggregator that cannot be filled on its own is simply not pre-filled
                    pass
            set_at(t, [tuple(s) for s in p["dst"]], obj)
            ids = content_ids(t)
            # the harness installed one object at two positions itself: that is what "aliased" means here, whatever the
            # library's own `children` lists report
            aliased = len(ids) != len(set(ids)) or cyclic(t) or [tuple(s) for s in p["src"]] != [tuple(s) for s in p["dst"]]
        elif p["kind"] == "template":
            # two sparse containers sharing one (never filled) template object must stay fillable
            tm = hg.Count()
            t = hg.UntypedLabel(a=hg.SparselyBin(1.0, gen.make_quantity(0), tm), b=hg.SparselyBin(0.5, gen.make_quantity(1), tm),
                         c=hg.Categorize(gen.make_quantity(gen.STR_COL), tm))
        msgs = []
        rows = [(r[0], r[1]) for r in p["rows"]]
        if not rows:
            # a case shrunk to no records still has to attempt one fill, otherwise "did not raise" is vacuous
            rows = [([0.5, 0.5, 0.5, 0.5, "a", True, [1.0, 0.0], "a"], 1.0)]
        import json as _json

        def state():
            try:
                return _json.dumps(t.toJson(), sort_keys=True, default=str)
            except RecursionError:
                return "cyclic"

        for attempt in range(4):
            use_np = p["np"] and attempt == 1
            use_df = p["np"] and attempt == 3   # through the dataframe interface: df.histogrammar(tree)
            before = state()
            q = None
            if not cyclic(t):
                q = {"before": shape_of(t)}
            try:
                if use_df:
                    import pandas as _pd

                    rec = execs.np_columns([r[0] for r in rows])
                    df = _pd.DataFrame({n: rec[n] for n in rec.dtype.names if rec[n].ndim == 1})
                    try:
                        df.histogrammar(t)
                    except ContainerException:
                        raise
                    except RecursionError:
                        raise
                    except Exception:  # noqa: BLE001
                        if aliased:
                            raise
                        # (a lambda quantity handed a pandas Series, a vector column: not what this property is about)
                elif use_np:
                    # explicit weight vector: scalar/unit weights on collections are the region of known finding
                    # C03-scalar-weight-count-first
                    import numpy as _np

                    t.fill.numpy(execs.np_columns([r[0] for r in rows]), _np.ones(len(rows)))
                else:
                    for d, w in rows:
                        t.fill(d, w)
                raised = None
            except ContainerException:
                raised = "container"
            except RecursionError:
                raised = "recursion"
            except Exception as e:  # noqa: BLE001
                raised = "other:" + type(e).__name__ + ":" + str(e)[:100]
            if q is not None and (raised in (None, "container")):
                q["raised"] = raised == "container"
                q["after"] = shape_of(t)
                self.shape_queries.append(q)
            if aliased:
                if raised != "container":
                    msgs.append("fill #%d (%s) of a tree containing one aggregator twice (%s) did not raise ContainerException: %s"
                                % (attempt + 1, "through df.histogrammar" if use_df else ("vectorised" if use_np else "row-wise"), p["kind"], raised))
                elif state() != before:
                    msgs.append("ContainerException was raised after the state had changed (fill #%d)" % (attempt + 1))
            else:
                if raised is not None:
                    msgs.append("a tree without shared nodes (%s) was rejected or failed: %s" % (p["kind"], raised))
        self.result = msgs
        return "ok"


def make_py():
    return C16Exec()


def _flags(sh):
    return [sh[1], [_flags(k) for k in sh[2]]]


def post_model(py, model):
    """the model of _checkForCrossReferences must give the same verdict and leave the same flags"""
    from wire import doc_to_wire, wire_to_doc

    for q in py.shape_queries:
        r = model.d.send(["$checkcross", doc_to_wire(q["before"])])
        if not isinstance(r, list):
            return {"what": "model driver rejected a shape: %r" % (r,)}
        raised, after = r[0], r[1]
        if raised != q["raised"]:
            return {"what": "cross-reference walk: model says raised=%r, implementation raised=%r" % (raised, q["raised"]), "shape": q["before"]}
        def flagmap(sh, acc):
            acc.setdefault(int(sh[0]), set()).add(bool(sh[1]))
            for k in sh[2]:
                flagmap(k, acc)
            return acc

        fm, fi = flagmap(after, {}), flagmap(q["after"], {})
        # objects created by the fill itself (new sparse bins) exist only on the implementation side
        # one object at two positions has one flag: marked iff the walk completed one of its occurrences
        if any((True in fm[i]) != (True in fi.get(i, ())) for i in fm):
            return {"what": "cross-reference walk: flags after the call differ between model and implementation", "shape": q["before"]}
    return None


execs.PY_ONLY_OPS.add("c16")


@common.pycheck("c16")
def _c16(py, replies):
    return py.result[0] if py.result else None


def oracle(case, py, replies):
    return common.eval_expect(case, py, replies)


def stats(case, py, replies):
    return {"nontrivial": 1 if case["params"]["kind"] in ("ancestor", "other") else 0,
            "kind_" + case["params"]["kind"]: 1}
