"""C09 — equality is exactly equality of aggregated content."""
import copy
import math
import random

import execs
import gen
from props import common

ID = "C09"
LEVEL = "proof"
LEVEL_TEXT = 'Lean 4 theorem eqv_iff_content: with zero tolerances == holds iff the content normal forms are identical, with reflexivity, symmetry, transitivity, monotonicity in the tolerances, equality with copy(), and single-difference corollaries; correspondence on generated single-difference pairs (numeric field incl. finite vs inf, key, extra trailing bin, nested child type) in both orders at tolerance 0 and 1e-12.'
LEVEL_NOTE = "liveOk (sparse container has a template iff its quantity is live) is an executable hypothesis checked on reached states; pickle clones are covered by C11's differential check only."
TECHNIQUE = 'Lean 4 proof over the model of __eq__ + correspondence on single-difference pairs'
LEAN_MODULE = "Hg.Props.C09"
THEOREMS = ["Hg.C09.eqv_iff_content", "Hg.C09.eqv_refl", "Hg.C09.eqv_symm", "Hg.C09.eqv_trans", "Hg.C09.eqv_mono_tol", "Hg.C09.eqv_copy", "Hg.C09.eqv_false_of_entries", "Hg.C09.eqv_false_of_kids_length", "Hg.C09.eqv_child"]
CASES = {"quick": 600, "thorough": 20000}
RULE = ("pairs of trees/states: identical fills (possibly permuted), one extra fill, one changed cell (incl. finite -> +-inf/NaN), or "
        "one structural perturbation (parameter, bin key, extra trailing bin/threshold, nested child type); == must hold exactly "
        "when the serialised contents are identical, in both orders, != is its negation, a == a, a == copy, reload == reload, and "
        "tolerance 1e-12 may only turn False into True through numeric fields; distinct = hash of parameters")
SHRINK_LISTS = ["sa", "sb"]
SHRINK_SPECS = []
TOL = 1e-12


def gen_params(rng, tier):
    spec = gen.gen_nested_binning_spec(rng) if rng.random() < 0.2 else gen.gen_spec(rng, rng.randint(0, 3))
    sa = [[d, w] for d, w in gen.gen_stream(rng, spec, rng.randint(0, 8), gate_rate=0.05)]
    variant = rng.choice(["same", "same", "extra", "cell", "cell", "struct", "struct"])
    spec2, sb, desc = spec, copy.deepcopy(sa), variant
    if variant == "same":
        pass  # identical order: float means/variances are then bit-identical, so == must hold at tolerance 0
    elif variant == "extra":
        d, w = gen.gen_stream(rng, spec, 1, gate_rate=0.0)[0]
        sb.insert(rng.randint(0, len(sb)), [d, w])
    elif variant == "cell":
        if not sb:
            d, w = gen.gen_stream(rng, spec, 1, gate_rate=0.0)[0]
            sa.append([d, w])
            sb = copy.deepcopy(sa)
        i = rng.randrange(len(sb))
        cols = [c for c in range(4)] + [gen.VEC_COL]
        c = rng.choice(cols)
        old = sb[i][0][c]
        if c == gen.VEC_COL:
            # one component of a vector-valued quantity (Bags of range N2)
            new = list(old)
            j = rng.randrange(len(new))
            new[j] = rng.choice([float("nan"), 7.5, (new[j] + 0.5) if isinstance(new[j], float) and math.isfinite(new[j]) else 0.25])
        else:
            new = rng.choice([float("inf"), float("-inf"), float("nan"), 100.0, -100.0,
                              (old + 0.125) if isinstance(old, float) and math.isfinite(old) else 0.0])
        if c == gen.SEL_COL and isinstance(new, float) and math.isinf(new):
            new = 7.0
        sb[i][0][c] = new
        desc = "cell %d of row %d: %r -> %r" % (c, i, old, new)
    else:
        pr = gen.perturb_spec(rng, spec, allow_qname=True)
        if pr is not None:
            spec2, desc, _ = pr
            if rng.random() < 0.5:
                sa, sb = [], []
            else:
                sb = [[d, w] for d, w in gen.gen_stream(rng, spec2, rng.randint(0, 6), gate_rate=0.05)] if rng.random() < 0.5 else copy.deepcopy(sa)
    return {"spec": spec, "spec2": spec2, "sa": sa, "sb": sb, "desc": desc, "wild_seed": rng.randint(0, 10**9)}


def build(p):
    S = lambda k: [(r[0], r[1]) for r in p["sa" if (k == "sb" and p["desc"] == "same") else k]]  # noqa: E731
    # ("same": both aggregators receive the same records, also after the case has been shrunk)
    ops = [("new", "a", p["spec"]), ("fills", "a", S("sa")), ("new", "b", p["spec2"]), ("fills", "b", S("sb"))]
    expect = []
    i0 = len(ops)
    ops += [("eq", "a", "b", 0, 0), ("eq", "b", "a", 0, 0), ("eq", "a", "b", TOL, TOL), ("eq", "b", "a", TOL, TOL)]
    expect.append(("pycheck", "c09_eq_iff_content", "a", "b", i0, p["desc"], True, p["desc"] == "same"))
    ops.append(("eq", "a", "a", 0, 0))
    expect.append(("reply", len(ops) - 1, True, "an aggregator does not equal itself"))
    # ... under every tolerance setting, also with only one of the two tolerances positive
    for rel, ab in ((TOL, 0), (0, TOL), (TOL, TOL)):
        ops.append(("eq", "a", "a", rel, ab))
        expect.append(("reply", len(ops) - 1, True, "an aggregator does not equal itself at relative tolerance %r, absolute tolerance %r" % (rel, ab)))
    ops.append(("copy", "ac", "a"))
    ops.append(("eq", "a", "ac", 0, 0))
    expect.append(("reply", len(ops) - 1, True, "an aggregator does not equal its copy()"))
    for rel, ab in ((TOL, 0), (0, TOL)):
        ops.append(("eq", "a", "ac", rel, ab))
        expect.append(("reply", len(ops) - 1, True, "an aggregator does not equal its copy() at relative tolerance %r, absolute tolerance %r" % (rel, ab)))
    ops.append(("eq", "ac", "a", 0, 0))
    expect.append(("reply", len(ops) - 1, True, "copy() does not equal the original"))
    ops += [("roundtrip", "r1", "a"), ("roundtrip", "r2", "a"), ("eq", "r1", "r2", 0, 0)]
    expect.append(("reply", len(ops) - 1, True, "two JSON reloads of one aggregator are unequal"))
    ops += [("roundtrip", "rb", "b"), ("eq", "r1", "rb", 0, 0), ("eq", "rb", "r1", 0, 0)]
    expect.append(("pycheck", "c09_eq_iff_content", "r1", "rb", len(ops) - 2, "reloaded: " + p["desc"], False, p["desc"] == "same"))
    return {"ops": ops, "expect": expect}


def _drop_bins_name(d):
    if isinstance(d, dict):
        return {k: _drop_bins_name(v) for k, v in d.items() if k != "bins:name"}
    if isinstance(d, list):
        return [_drop_bins_name(v) for v in d]
    return d


@common.pycheck("c09_eq_iff_content")
def _eq_content(py, replies, h1, h2, i, desc, with_tol=True, must_equal=False):
    da, db = py.state(h1), py.state(h2)
    strict = execs.diff_doc(da, db, mode="strict")
    same = strict is None
    ab, ba = replies[i], replies[i + 1]
    for r in (ab, ba) + ((replies[i + 2], replies[i + 3]) if with_tol else ()):
        if not isinstance(r, bool):
            return "== did not return a bool: %r (%s)" % (r, desc)
    if ab != ba:
        return "== is not symmetric: a==b is %r, b==a is %r (%s)" % (ab, ba, desc)
    if ab and not same:
        # `bins:name` of a sparse container is not part of what == compares (Hg.Model.Spec `Kind.content`): two empty
        # reloaded containers that differ in nothing else are equal
        strict2 = execs.diff_doc(_drop_bins_name(da), _drop_bins_name(db), mode="strict")
        if strict2 is not None:
            return "a == b although the contents differ: %s (%s)" % (strict2, desc)
    if must_equal and not ab:
        return "two aggregators built from one tree and filled with the same records are unequal (%s)" % desc
    if with_tol:
        tab, tba = replies[i + 2], replies[i + 3]
        if ab and not (tab and tba):
            return "equal at tolerance 0 but unequal at tolerance 1e-12 (%s)" % desc
        shape = execs.diff_doc(da, db, mode="shape")
        if shape is not None and (tab or tba):
            return "a tolerance made structurally different aggregators equal: %s (%s)" % (shape, desc)
    return None


def wild_reload_check(p):
    """Implementation-level (non-dyadic data, so outside the exact model): an aggregator in immutable form — a JSON reload,
    the sum of two reloads, a reload scaled by a factor — equals the reload of its own serialisation, in both orders, at
    tolerance 0.  (What toJson writes is what == compares, so rounding inside the merge must not separate the two.)"""
    import random

    from histogrammar import Factory

    rng = random.Random(p.get("wild_seed", 0))
    spec = p["spec"]
    msgs = []

    def wild_rows(n):
        rows = []
        for _ in range(n):
            d = [round(rng.uniform(-5, 5), 1) for _ in range(4)] + [rng.choice(gen.CATS), rng.random() < 0.6,
                                                                     [round(rng.uniform(-2, 2), 1), round(rng.uniform(-2, 2), 1)], rng.choice(gen.CATS)]
            rows.append((d, rng.choice([1.0, 1.0, 2.0, 0.5, 0.3])))
        return rows

    try:
        a, b = gen.build(spec), gen.build(spec)
        for d, w in wild_rows(rng.randint(1, 6)):
            a.fill(d, w)
        for d, w in wild_rows(rng.randint(0, 5)):
            b.fill(d, w)
    except Exception:  # noqa: BLE001 - e.g. a Bag of strings over a numeric column: not what this check is about
        return msgs
    ra, rb = Factory.fromJson(a.toJson()), Factory.fromJson(b.toJson())
    for name, m in (("reload", ra), ("reload + reload", ra + rb), ("reload * 1.2", ra * 1.2), ("(reload + reload) * 0.7", (ra + rb) * 0.7)):
        rm = Factory.fromJson(m.toJson())
        if m.toJson() != rm.toJson():
            msgs.append("%s: the reload of its serialisation serialises differently" % name)
        elif not (m == rm) or not (rm == m) or (m != rm):
            msgs.append("%s (immutable form, non-dyadic data) does not equal the reload of its own serialisation although both "
                        "serialise identically" % name)
    return msgs


def string_name_check(p):
    """Implementation-level: the case's tree with every quantity written as a string expression under an explicit name
    (named("pt", "c0")), unfilled.  Two such trees are equal when all names agree and unequal — in both orders, with != the
    negation — when one quantity (not that of a Select, whose == ignores it) carries another name."""
    import copy
    import random

    spec = copy.deepcopy(p["spec"])
    nodes = [n for n in gen.walk(spec) if "q" in n]
    if not nodes:
        return []
    rng = random.Random(p.get("wild_seed", 0))
    for n in nodes:
        n["q"] = [n["q"][0], rng.choice(["pt", "eta", "phi"]), rng.choice(["namedstr", "cachednamedstr"])]
    cands = [i for i, n in enumerate(nodes) if n["k"] != "Select"]
    try:
        a, b = gen.build(spec), gen.build(copy.deepcopy(spec))
    except Exception:  # noqa: BLE001
        return []
    msgs = []
    if not (a == b) or (a != b):
        msgs.append("two trees built alike from named string expressions are unequal")
    if cands:
        spec2 = copy.deepcopy(spec)
        n2 = [n for n in gen.walk(spec2) if "q" in n][rng.choice(cands)]
        old = n2["q"][1]
        n2["q"][1] = {"pt": "eta", "eta": "phi", "phi": "pt"}[old]
        c = gen.build(spec2)
        if (a == c) or (c == a) or not (a != c):
            msgs.append("a %s whose string quantity %r is named %r compares equal to one where it is named %r (a == c: %r, c == a: %r, a != c: %r)"
                        % (n2["k"], "c%d" % n2["q"][0], old, n2["q"][1], a == c, c == a, a != c))
    return msgs


def ed_statistics_check(p):
    """Implementation-level: leaves made with `.ed(entries, statistics...)` — also with zero entries, where a fill never
    leaves such statistics — are equal exactly when their documents are, alone and as the member of a Label."""
    import random

    hg = gen.hg
    rng = random.Random(p.get("wild_seed", 0) + 1)
    v1, v2 = rng.sample([3.0, 5.0, -1.5, 0.0, 42.0], 2)
    makers = [("Sum", lambda e, v: hg.Sum.ed(e, v)), ("Average", lambda e, v: hg.Average.ed(e, v)),
              ("Deviate (mean)", lambda e, v: hg.Deviate.ed(e, v, 1.0)), ("Deviate (variance)", lambda e, v: hg.Deviate.ed(e, 1.0, abs(v))),
              ("Minimize", lambda e, v: hg.Minimize.ed(e, v)), ("Maximize", lambda e, v: hg.Maximize.ed(e, v))]
    name, mk = makers[rng.randrange(len(makers))]
    msgs = []
    for e in (0.0, rng.choice([1.0, 2.0, 0.5])):
        for wrap in (lambda x: x, lambda x: hg.Label(m=x)):
            try:
                a, b, c = wrap(mk(e, v1)), wrap(mk(e, v2)), wrap(mk(e, v1))
                same_ab = a.toJson() == b.toJson()
                if (a == b) != same_ab or (b == a) != same_ab or (a != b) == same_ab:
                    msgs.append("%s.ed(%r, %r) and %s.ed(%r, %r)%s: documents %s but a == b is %r, b == a is %r, a != b is %r"
                                % (name, e, v1, name, e, v2, "" if a is not None and a.name != "Label" else " as members of a Label",
                                   "equal" if same_ab else "differ", a == b, b == a, a != b))
                if not (a == c) or (a != c):
                    msgs.append("%s.ed(%r, %r) built twice compares unequal" % (name, e, v1))
            except Exception as ex:  # noqa: BLE001
                msgs.append("%s.ed(%r, ...): comparison raised %s: %s" % (name, e, type(ex).__name__, ex))
    return msgs[:1]


def oracle(case, py, replies):
    out = common.eval_expect(case, py, replies)
    from runner import dec

    p = dec(case["params"])
    out += wild_reload_check(p) + string_name_check(p) + ed_statistics_check(p)
    return out


stats = common.basic_stats
