"""C11 — pickling preserves content, equality and fillability."""
import copy
import pickle

import execs
import gen
from props import common

ID = "C11"
LEVEL = "other"
LEVEL_TEXT = ("Pickling is a CPython runtime mechanism (__getstate__/__setstate__, FillMethod rebuilding, UserFcn.__reduce__ with "
              "marshal-ed code objects) that an executable Lean model cannot exhibit; the Lean side only carries the determinism "
              "skeleton (a clone with identical content that is a fresh object stays equal under identical continuations: "
              "fill/fillAll are functions, and disjoint object graphs do not interfere, C06). The property itself is decided by "
              "differential exploration on the real library: generated trees over all 19 primitives with every quantity form "
              "(lambda, def, string expression, named, cached), live and reloaded states, real pickle.dumps/loads, equality, "
              "identical serialisation, original unchanged (state and behaviour, including fill.numpy), and row-wise and "
              "vectorised continuations on clone and original, with the model run alongside as a third opinion on the states.")
LEVEL_NOTE = ("partial: model lemma + differential exploration; pickle/marshal/closures are outside any model. Closures over cells "
              "are outside the claim (marshal cannot carry them).")
TECHNIQUE = "differential exploration of real pickle round trips + Lean determinism/non-interference lemmas (partial)"
LEAN_MODULE = "Hg.Props.C11"
THEOREMS = ["Hg.C11.clone_eqv", "Hg.C11.clone_continuation", "Hg.C11.clone_continuation_np", "Hg.C11.clone_add"]
CASES = {"quick": 200, "thorough": 6000}
RULE = ("random tree with a random quantity form per node (lambda / def / string expression / named / cached), filled to a random "
        "state, optionally reloaded from JSON; pickle round trip; then identical row-wise and vectorised continuations on clone "
        "and original; distinct = hash of parameters; non-trivial = some fill passed the gate")
SHRINK_LISTS = ["sa", "cont"]

FORMS = ["lambda", "lambda", "nandefault", "def", "localdef", "str", "cached", "cachedstr", "namedstr", "cachednamedstr"]


def add_forms(rng, spec):
    for node in gen.walk(spec):
        if "q" in node:
            form = rng.choice(FORMS)
            col, name = node["q"][0], node["q"][1]
            if form == "def" and col not in gen.DEFS:
                form = "lambda"
            if form in ("def", "localdef", "str", "cachedstr"):
                name = None   # these forms carry an implicit name (known finding C17-implicit-name forbids a second one)
            node["q"] = [col, name, form]
    return spec


def gen_params(rng, tier):
    spec = add_forms(rng, gen.gen_count_sibling_spec(rng) if rng.random() < 0.15 else gen.gen_spec(rng, rng.randint(0, 3)))
    g = lambda n: [[d, w] for d, w in gen.gen_stream(rng, spec, rng.randint(0, n), gate_rate=0.05)]  # noqa: E731
    cont = g(5)
    for r in cont:
        if r[0][gen.STR_COL] is None:
            r[0][gen.STR_COL] = "NaN"
        if not (r[1] > 0):
            r[1] = 0.0
    return {"spec": spec, "sa": g(8), "cont": cont, "reloaded": rng.random() < 0.25,
            "np": any("q" in s for s in gen.walk(spec)) and not any(s["k"] == "Sum" for s in gen.walk(spec)),
            # default / scalar weights where the visit order allows it (see gen.scalar_weight_safe)
            "npmode": rng.choice(["array", "unit", ["scalar", 2.0]]) if gen.scalar_weight_safe(spec) else "array",
            # a tree over ONE quantity filled with unstructured data (bare numbers, a bare array): string expressions then
            # discover their single variable at the first call — also after pickling
            "bare": {"form": rng.choice(["str", "namedstr", "cachedstr", "lambda", "cachedlambda", "strexpr"]),
                     "shape": rng.choice(["sum", "bin", "binsum", "select"]),
                     "pre": [rng.randint(-16, 24) / 8.0 for _ in range(rng.randint(0, 4))],
                     "post": [rng.randint(-16, 24) / 8.0 for _ in range(rng.randint(1, 4))]}}


def build(p):
    S = lambda k: [(r[0], r[1]) for r in p[k]]  # noqa: E731
    ops = [("new", "a", p["spec"]), ("fills", "a", S("sa"))]
    expect = []
    src = "a"
    if p["reloaded"]:
        ops.append(("roundtrip", "ar", "a"))
        src = "ar"
    ops.append(("snap", "before", src))
    ops.append(("pickle", "c", src))
    expect.append(("reply", len(ops) - 1, "ok", "pickle round trip failed or the clone is not equal to the original"))
    ops.append(("checksnap", "before", src, "pickling changed the original"))
    ops.append(("checkeq", "c", src, "the clone's serialised content differs from the original's"))
    ops.append(("noshare", "c", src, "the clone and the original"))
    if not p["reloaded"]:
        cont = S("cont")
        for h in ("c", src):
            ops.append(("fills", h, cont))
            expect.append(("pycheck", "all_ok11", len(ops) - 1))
        ops.append(("checkeq", "c", src, "clone and original diverge under identical row-wise fills"))
        if p["np"]:
            for h in ("c", src):
                # (a shrunk tree may have left the region where scalar weights are safe: see gen.scalar_weight_safe)
                ops.append(("fillsnp", h, cont, p.get("npmode", "array") if gen.scalar_weight_safe(gen.effective_spec(p["spec"])) else "array"))
                expect.append(("reply", len(ops) - 1, "ok", "fill.numpy raised after the pickle round trip (on %s)" % ("the clone" if h == "c" else "the original")))
            ops.append(("checkeq", "c", src, "clone and original diverge under identical vectorised fills"))
        ops.append(("pickle", "c2", "c"))
        expect.append(("reply", len(ops) - 1, "ok", "second pickle round trip failed"))
    if p.get("bare"):
        ops.append(("c11bare", p["bare"]))
    ops.append(("add", "s", "c", src))
    expect.append(("noraise", len(ops) - 1, "clone + original raised"))
    return {"ops": ops, "expect": expect}


class C11Exec(execs.PyExec):
    """records are dicts {"c0": ...} so that string-expression quantities can read them"""

    @staticmethod
    def rec(d):
        return {"c%d" % i: v for i, v in enumerate(d)}

    def apply(self, op):
        if op[0] == "fills":
            op = ("fills", op[1], [(self.rec(d), w) for d, w in op[2]])
        elif op[0] == "fill":
            op = ("fill", op[1], self.rec(op[2]), op[3])
        elif op[0] == "c11bare":
            try:
                msg = bare_check(op[1])
            except Exception as e:  # noqa: BLE001
                msg = "pickling / filling with unstructured data crashed: %s: %s" % (type(e).__name__, str(e)[:200])
            return ("violation: " + msg) if msg else "ok"
        elif op[0] == "pickle":
            try:
                src = self.pool[op[2]]
                clone = pickle.loads(pickle.dumps(src))
                self.pool[op[1]] = clone
                if not (clone == src) or (clone != src):
                    return "violation: the pickle clone does not compare equal to the original"
                if not (src == clone):
                    return "violation: the original does not compare equal to its pickle clone"
                return "ok"
            except Exception as e:  # noqa: BLE001
                return "raise:" + type(e).__name__ + ":" + str(e)[:120]
        return super().apply(op)


def bare_check(b):
    """one quantity over unstructured data: original and pickle clone stay equal under identical row-wise and vectorised
    continuations with bare numbers / a bare array"""
    import numpy as np
    from histogrammar.util import cached, named

    def q():
        f = b["form"]
        if f == "str":
            return "x"
        if f == "strexpr":
            return "x * 2 + 1"
        if f == "namedstr":
            return named("momentum", "x")
        if f == "cachedstr":
            return cached("x")
        if f == "cachedlambda":
            return cached(lambda x: x)
        return lambda x: x

    sh = b["shape"]
    if sh == "sum":
        h = gen.hg.Sum(q())
    elif sh == "bin":
        h = gen.hg.Bin(4, -2.0, 3.0, q())
    elif sh == "binsum":
        h = gen.hg.Bin(4, -2.0, 3.0, q(), gen.hg.Sum(q()))
    else:
        h = gen.hg.Select(lambda x: x > 0, gen.hg.Average(q()))
    for x in b["pre"]:
        h.fill(x)
    c = pickle.loads(pickle.dumps(h))
    if not (c == h) or c.toJson() != h.toJson():
        return "the pickle clone of a tree filled with bare numbers differs from the original (%s over %s)" % (sh, b["form"])
    for x in b["post"]:
        h.fill(x)
        c.fill(x)
    if c.toJson() != h.toJson():
        return "clone and original diverge under identical row-wise fills with bare numbers (%s over %s)" % (sh, b["form"])
    arr = np.array(b["post"], dtype=float)
    h.fill.numpy(arr)
    c.fill.numpy(arr.copy())
    if c.toJson() != h.toJson():
        return "clone and original diverge under identical vectorised fills with a bare array (%s over %s)" % (sh, b["form"])
    # a histogram with the default selection of the convenience constructors (the library's own `unweighted` function, which
    # after pickling is an equal but distinct object): clone and original take the same vectorised fill alike — both fill, or
    # both refuse in the same way — and stay equal
    from histogrammar.convenience import HistogramCut

    hc = HistogramCut(4, -2.0, 3.0, q())
    for x in b["pre"]:
        hc.fill(x)
    cc = pickle.loads(pickle.dumps(hc))
    outcome = []
    for obj in (hc, cc):
        try:
            obj.fill.numpy(arr.copy())
            outcome.append("filled")
        except Exception as e:  # noqa: BLE001
            outcome.append(type(e).__name__)
    if outcome[0] != outcome[1] or not (cc == hc) or cc.toJson() != hc.toJson():
        return ("a HistogramCut with the default selection and its pickle clone take one vectorised fill differently (original: %s, "
                "clone: %s) or differ afterwards (%s)" % (outcome[0], outcome[1], b["form"]))
    # data that is not exactly representable (values within rounding distance of non-dyadic bin edges, fractional weights):
    # every value must land in the same bin on both sides; accumulated sums agree up to rounding
    import random

    rng = random.Random(int(sum(abs(x) for x in b["post"]) * 8) + len(b["pre"]))
    n = rng.randint(3, 12)
    for width, hist in ((1.1, gen.hg.Bin(5, 0.0, 1.1, q())), (0.7, gen.hg.Bin(7, -0.7, 0.7, q(), gen.hg.Sum(q()))),
                        (0.3, gen.hg.SparselyBin(0.3, q())), (1.0, gen.hg.CentrallyBin([-2.0, 0.3, 0.7, 3.1], q()))):
        hist.fill(0.1)
        clone = pickle.loads(pickle.dumps(hist))
        xs = np.array([rng.choice([0.22, 0.88, 0.44, 0.66, 0.3, 0.6, 0.9, -0.85, -0.65, 1.9, 0.5, float("nan")]) + rng.choice([0.0, 0.0, 1e-16, -1e-16])
                       for _ in range(n)])
        ws = np.array([rng.choice([1.0, 0.3, 0.7, 1.1, 2.5, 0.0]) for _ in range(n)])
        hist.fill.numpy(xs, ws)
        clone.fill.numpy(xs.copy(), ws.copy())
        # "keeps them equal": the library's == and the same content up to floating-point rounding of accumulated sums (a
        # clone may legitimately take an equivalent vectorised code path that adds the same terms in another order)
        if not (clone == hist) or _close_docs(clone.toJson(), hist.toJson()) is not None:
            return ("clone and original diverge under one identical vectorised fill of non-dyadic data (%s): %s filled with %r, weights %r"
                    % (_close_docs(clone.toJson(), hist.toJson()) or "== is false", hist.name, xs.tolist(), ws.tolist()))
    return None


def _close_docs(a, b, path=""):
    """first difference between two JSON documents beyond rounding (numbers to 1e-9 relative), or None"""
    num = lambda x: isinstance(x, (int, float)) and not isinstance(x, bool)  # noqa: E731
    if num(a) and num(b):
        return None if abs(a - b) <= 1e-9 * max(1.0, abs(a), abs(b)) else "%s: %r != %r" % (path, a, b)
    if type(a) is not type(b):
        return "%s: %r vs %r" % (path, a, b)
    if isinstance(a, dict):
        if set(a) != set(b):
            return "%s: keys differ" % path
        for k in a:
            d = _close_docs(a[k], b[k], path + "/" + str(k))
            if d:
                return d
        return None
    if isinstance(a, list):
        if len(a) != len(b):
            return "%s: length %d vs %d" % (path, len(a), len(b))
        for i, (x, y) in enumerate(zip(a, b)):
            d = _close_docs(x, y, "%s[%d]" % (path, i))
            if d:
                return d
        return None
    return None if a == b else "%s: %r != %r" % (path, a, b)


execs.PY_ONLY_OPS.add("c11bare")


def make_py():
    return C11Exec()


@common.pycheck("all_ok11")
def _ok(py, replies, i):
    bad = [x for x in replies[i] if x != "ok"]
    return ("a fill after the pickle round trip raised: %s" % bad[:2]) if bad else None


def oracle(case, py, replies):
    return common.eval_expect(case, py, replies)


stats = common.basic_stats
