"""C02 — fill computes the specified function of the weighted multiset of data."""
import math

import execs
import gen
import refeval
from props import common

ID = "C02"
LEVEL = "proof"
LEVEL_TEXT = 'Lean 4 theorems: fillAll_eq_denote — for every empty tree and every good stream the record-by-record fill equals the closed-form specification denote (sums of weights, weighted sums, mean/variance with the special-value table, extrema ignoring NaN, value-to-weight map, routed sub-multisets per child; written without reference to fill); the specification depends on the multiset only; weight gate (a fill with weight <= 0 or NaN is the identity), order independence of fillAll for every permutation, state-independence of faults, routing conventions stated outright; the closed-form value of every node is compared with an independent exact-rational reference evaluator and with the Lean model on generated streams over the critical values of each tree.'
LEVEL_NOTE = 'Exact arithmetic; IEEE rounding of sums/means/variances is the declared gap. The specification denote is itself compared with the implementation on every case (and with an independent exact-rational reference evaluator written from the Histogrammar specification).'
TECHNIQUE = 'Lean 4 proof (gate, permutation invariance, routing) + three-way differential check against an independent reference evaluator'
LEAN_MODULE = "Hg.Props.C02"
THEOREMS = ["Hg.C02.fillAll_eq_denote", "Hg.C02.denote_perm", "Hg.C02.denote_gated", "Hg.C02.fill_gate", "Hg.C02.fillAll_perm", "Hg.C02.fill_ok_indep", "Hg.C02.routeBin_spec", "Hg.C02.centralPick_midpoint", "Hg.C02.count_transform_spec", "Hg.C02.count_transform_gate"]
CASES = {"quick": 320, "thorough": 12000}
RULE = ("random tree spec (19 primitives, depth<=3) and a stream of <=16 weighted records over the tree's critical values "
        "(every edge/threshold/centre/midpoint +- 1/8, NaN, +-inf, None/strings) with gate weights {0,-1,-0.5,nan} mixed in; "
        "the filled tree is compared with an independent exact-rational evaluation of the specification, with a fill of a "
        "random permutation, and gate-weight fills must leave the state untouched; distinct = hash of parameters")
SHRINK_LISTS = ["stream"]


def gen_params(rng, tier):
    spec = gen.gen_spec(rng, rng.randint(0, 3))
    stream = [[d, w] for d, w in gen.gen_stream(rng, spec, rng.randint(0, 16), gate_rate=0.25)]
    if rng.random() < 0.08:
        # a Bag of vectors (alone or as the content of a simple container) over a small alphabet of vectors with NaN and
        # infinite components: equal vectors are one key of the multiset, whichever NaN objects they are made of
        bag = {"k": "Bag", "q": [gen.VEC_COL, rng.choice(gen.NAMES)], "range": "N2"}
        spec = rng.choice([bag, {"k": "Select", "q": [gen.BOOL_COL, None], "cut": bag}, {"k": "Categorize", "q": [gen.STR_COL, None], "value": bag}])
        alphabet = [[gen.NAN, 1.0], [gen.NAN, gen.INF], [1.0, gen.NAN], [0.0, 0.0], [gen.NAN, gen.NAN], [2.5, 0.5]]
        for row in stream:
            row[0][gen.VEC_COL] = list(rng.choice(alphabet))
    perm = list(range(len(stream)))
    rng.shuffle(perm)
    # a Bin with an arbitrary (non-dyadic) number of bins, probed exactly on those of its edges that are exactly
    # representable: there the index n*(x-low)/(high-low) is an exact integer in floating point too, so the half-open
    # convention is decided without rounding
    from fractions import Fraction

    n = rng.randint(1, 64)
    low = rng.randint(-8, 8) / rng.choice([1, 2, 4])
    high = low + rng.randint(1, 40) / rng.choice([1, 2, 4])
    xs = []
    for k in range(0, n + 1):
        e = Fraction(low) + Fraction(k) * (Fraction(high) - Fraction(low)) / n
        if Fraction(float(e)) == e:
            xs.append(float(e))
    rng.shuffle(xs)
    # a SparselyBin with a width that is not a power of two, probed on (floating-point) edges and midpoints whose bin is
    # decided without ambiguity: the exact quotient (x - origin)/width is not within 1e-9 below an integer, and the
    # half-open interval [origin + i*w, origin + (i+1)*w) computed in floating point contains x for the same i
    w = rng.choice([0.1, 0.3, 0.7, 1.1, 0.05, 2.3, 0.6])
    o = rng.choice([0.0, 0.25, -1.7, 10.0])
    sx = []
    for k in rng.sample(range(-12, 13), 10):
        for x in (o + k * w, o + (k + 0.5) * w):
            qx = (Fraction(x) - Fraction(o)) / Fraction(w)
            i = math.floor(qx)
            if (i + 1) - qx < Fraction(1, 10**9):
                continue
            if not (o + i * w <= x < o + (i + 1) * w):
                continue
            sx.append([x, i])
    # a CentrallyBin with decimal centres, probed on the midpoints between neighbouring centres and the floats next to
    # them: a value belongs to the nearest centre, the upper one on a tie.  Only values for which the exact rule and the
    # floating-point midpoint (a + b) / 2 agree are kept.
    cs = sorted(rng.sample([-2.0, -1.3, -0.4, 0.3, 0.7, 0.8, 1.9, 3.1, 4.6, 10.1], rng.randint(2, 5)))
    cx = []
    for a, b in zip(cs, cs[1:]):
        m = (a + b) / 2.0
        for x in (m, math.nextafter(m, -math.inf), math.nextafter(m, math.inf), a, b):
            exact_upper = Fraction(x) >= (Fraction(a) + Fraction(b)) / 2
            float_upper = not (x < (a + b) / 2.0)
            if exact_upper != float_upper:
                continue
            # the index among all centres: nearest centre overall (x lies between a and b, or is a or b itself)
            cx.append([x, cs.index(b) if exact_upper else cs.index(a)])
    unsorted = False
    stacks = [b for b in gen.walk(spec) if b["k"] == "Stack" and len(b["edges"]) > 1]
    if stacks and rng.random() < 0.35:
        # the constructor neither sorts nor rejects thresholds given out of order; each level counts the values at or above
        # its own threshold.  Outside the model's well-formed trees: compared with the reference evaluation only.
        for b in stacks:
            b["edges"] = list(reversed(b["edges"]))
        unsorted = True
    return {"spec": spec, "stream": stream, "unsorted": unsorted, "perm_seed": rng.randint(0, 10**9), "edge": {"n": n, "low": low, "high": high, "xs": xs[:12]},
            "sparse_edge": {"w": w, "o": o, "xs": sx[:12]}, "central_mid": {"cs": cs, "xs": cx[:14]}}


def build(p):
    import random

    spec = p["spec"]
    stream = [(r[0], r[1]) for r in p["stream"]]
    perm = list(stream)
    random.Random(p["perm_seed"]).shuffle(perm)
    ops = [("new", "a", spec), ("fills", "a", stream), ("new", "b", spec), ("fills", "b", perm)]
    expect = [("eqdoc", "a", "b", "order independence"), ("pycheck", "c02_reference", "a")]
    # a fill whose weight does not pass the gate changes nothing
    gate = [(d, w) for d, w in stream if not (isinstance(w, float) and w > 0)]
    if gate:
        ops.append(("snap", "before_gate", "a"))
        ops.append(("fills", "a", gate))
        ops.append(("checksnap", "before_gate", "a", "fill with weight <= 0 or NaN changed the aggregate"))
    for i, op in enumerate(ops):
        if op[0] == "fills":
            expect.append(("pycheck", "all_ok", i))
    if p.get("edge"):
        e = p["edge"]
        cnt = {"k": "Count"}
        espec = {"k": "Bin", "q": [0, None], "n": e["n"], "low": e["low"], "high": e["high"], "value": cnt,
                 "underflow": cnt, "overflow": cnt, "nanflow": cnt}
        erows = [([x, 0.0, 0.0, 0.0, "a", True, [0.0, 0.0], "a"], 1.0) for x in e["xs"]]
        ops += [("new", "eb", espec), ("fills", "eb", erows)]
        expect.append(("pycheck", "c02_edge_reference", "eb"))
    if p.get("sparse_edge") and p["sparse_edge"]["xs"]:
        ops.append(("c02sparse", p["sparse_edge"]))
    if p.get("central_mid") and p["central_mid"]["xs"]:
        ops.append(("c02central", p["central_mid"]))
    ops.append(("new", "zf", spec))
    # the closed-form specification of the stream (model: denote) against the filled implementation state
    ops.append(("denote", "dn", "zf", stream, "b"))
    for name in ("iszero", "hastmpl", "nobins", "good"):
        ops.append(("mcheck", [name, "zf"], True))
    for dw in stream:
        ops.append(("mcheck", ["goodrun", "zf", [dw]], True))
    if p.get("unsorted"):
        ops = [(("snap", "_skipped", "a") if (o[0] == "denote" or (o[0] == "mcheck" and o[1][0] in ("good", "goodrun"))) else o) for o in ops]
    return {"ops": ops, "expect": expect, "spec": spec, "stream": stream}


def post_model(py, model):
    """a Count with a weight transform on the weights of the case (gate weights included): the gate is on the weight handed
    to fill, not on what the transform makes of it (model: Hg.Model.CountT, laws for every transform)"""
    from runner import dec

    p = dec(py.case["params"])
    ws = [r[1] for r in p["stream"]]
    return common.countt_post(model, ws, [ws], None, len(ws) + p["perm_seed"] % 7)


def transform_spec_check(p):
    """Implementation-level twin of the CountT correspondence: a Count with a polynomial weight transform holds the sum of the
    transformed weights of the records whose own weight is positive (exact on the case's dyadic weights)."""
    import math
    from fractions import Fraction

    ws = [float(r[1]) for r in p["stream"]]
    if any(math.isinf(w) and w > 0 for w in ws):
        return []
    label, cs = common.COUNTT_POLYS[(len(ws) + p["perm_seed"] % 7) % len(common.COUNTT_POLYS)]

    def f(w):
        return sum(float(c) * w ** i for i, c in enumerate(cs))

    c = gen.hg.Count(f)
    try:
        for w in ws:
            c.fill(None, w)
    except Exception as e:  # noqa: BLE001
        return ["Count(transform %s) filled with weights %r: %s: %s" % (label, ws, type(e).__name__, str(e)[:160])]
    want = sum((Fraction(f(w)) for w in ws if w > 0), Fraction(0))
    if Fraction(float(c.entries)) != want:
        return ["Count(transform %s) filled with weights %r holds %r, the specification gives %r (weights that do not pass the gate "
                "contribute nothing, whatever the transform makes of them)" % (label, ws, c.entries, float(want))]
    return []


@common.pycheck("c02_reference")
def _ref(py, replies, h):
    case = py.case_params
    spec = case["spec"]
    stream = [(r[0], r[1]) for r in case["stream"]]
    want = execs.canon_doc(refeval.reference_doc(spec, stream))
    got = py.state(h)
    d = execs.diff_doc(got, want)
    return ("state differs from the specification's value for this multiset: %s" % d) if d else None


@common.pycheck("c02_edge_reference")
def _edge_ref(py, replies, h):
    e = py.case_params["edge"]
    cnt = {"k": "Count"}
    espec = {"k": "Bin", "q": [0, None], "n": e["n"], "low": e["low"], "high": e["high"], "value": cnt,
             "underflow": cnt, "overflow": cnt, "nanflow": cnt}
    erows = [([x, 0.0, 0.0, 0.0, "a", True, [0.0, 0.0], "a"], 1.0) for x in e["xs"]]
    want = execs.canon_doc(refeval.reference_doc(espec, erows))
    d = execs.diff_doc(py.state(h), want)
    return ("Bin(%d, %r, %r) filled exactly on its edges %r differs from the half-open specification: %s"
            % (e["n"], e["low"], e["high"], e["xs"], d)) if d else None


@common.pycheck("all_ok")
def _all_ok(py, replies, i):
    r = replies[i]
    bad = [x for x in r if x != "ok"]
    return ("a fill of well-typed data raised: %s" % bad[:2]) if bad else None


class C02Exec(execs.PyExec):
    def apply(self, op):
        if op[0] == "c02central":
            e = op[1]
            h = gen.hg.CentrallyBin(e["cs"], lambda x: x)
            want = [0.0] * len(e["cs"])
            for x, i in e["xs"]:
                h.fill(x, 2.0)
                want[i] += 2.0
            got = [v.entries for _, v in h.bins]
            if got != want:
                return ("violation: CentrallyBin(%r) filled at %r: bins %r, the nearest-centre rule (ties upwards) gives %r"
                        % (e["cs"], [x for x, _ in e["xs"]], got, want))
            return "ok"
        if op[0] != "c02sparse":
            return super().apply(op)
        e = op[1]
        h = gen.hg.SparselyBin(e["w"], lambda x: x, origin=e["o"])
        want = {}
        for x, i in e["xs"]:
            h.fill(x, 2.0)
            want[i] = want.get(i, 0.0) + 2.0
        got = {int(k): v.entries for k, v in h.bins.items()}
        if got != want:
            return ("violation: SparselyBin(binWidth=%r, origin=%r) filled at %r: bins %r, the half-open intervals give %r"
                    % (e["w"], e["o"], [x for x, _ in e["xs"]], got, want))
        return "ok"


execs.PY_ONLY_OPS.add("c02sparse")
execs.PY_ONLY_OPS.add("c02central")


def make_py():
    return C02Exec()


def oracle(case, py, replies):
    from runner import dec

    py.case_params = dec(case["params"])
    return common.eval_expect(case, py, replies) + transform_spec_check(py.case_params)


stats = common.basic_stats
