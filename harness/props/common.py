"""Shared pieces of the per-property modules: expectation evaluation, case keys, statistics."""
import hashlib
import json
import math

import execs
import gen
from runner import enc


PYCHECKS = {}


def pycheck(name):
    def deco(f):
        PYCHECKS[name] = f
        return f

    return deco


from execs import prune_doc  # noqa: E402,F401


def eval_expect(case, py, replies):
    """Evaluate the case's expectations on the implementation's objects. Returns violation strings."""
    out = []
    for ex in case.get("expect", []):
        kind = ex[0]
        try:
            if kind == "eqdoc":
                d = execs.diff_doc(py.state(ex[1]), py.state(ex[2]))
                if d:
                    out.append("%s: %s and %s differ: %s" % (ex[3] if len(ex) > 3 else "eqdoc", ex[1], ex[2], d))
            elif kind == "eqdoc_pruned":
                d = execs.diff_doc(prune_doc(py.state(ex[1])), prune_doc(py.state(ex[2])))
                if d:
                    out.append("%s: %s and %s differ (zero-weight bins ignored): %s" % (ex[3] if len(ex) > 3 else "eqdoc", ex[1], ex[2], d))
            elif kind == "eqsnap":
                d = execs.diff_doc(py.snaps[ex[1]], py.state(ex[2]))
                if d:
                    out.append("%s: %s changed since snapshot %s: %s" % (ex[3] if len(ex) > 3 else "frame", ex[2], ex[1], d))
            elif kind == "reply":
                if replies[ex[1]] != ex[2]:
                    out.append("%s: op %d replied %r, expected %r" % (ex[3] if len(ex) > 3 else "reply", ex[1], replies[ex[1]], ex[2]))
            elif kind == "raises":
                r = replies[ex[1]]
                if not (isinstance(r, str) and r.startswith("raise")):
                    out.append("%s: op %d did not raise (replied %r)" % (ex[2] if len(ex) > 2 else "raises", ex[1], r))
            elif kind == "noraise":
                r = replies[ex[1]]
                if isinstance(r, str) and (r.startswith("raise") or r.startswith("crash")):
                    out.append("%s: op %d raised (%r)" % (ex[2] if len(ex) > 2 else "noraise", ex[1], r))
            elif kind == "replies_equal":
                if replies[ex[1]] != replies[ex[2]]:
                    out.append("%s: ops %d and %d replied differently: %r vs %r" % (ex[3] if len(ex) > 3 else "replies", ex[1], ex[2], replies[ex[1]], replies[ex[2]]))
            elif kind == "pycheck":
                msg = PYCHECKS[ex[1]](py, replies, *ex[2:])
                if msg:
                    out.append(msg)
            else:
                out.append("unknown expectation %r" % (kind,))
        except Exception as e:  # noqa: BLE001
            out.append("expectation %s on %s crashed: %s: %s" % (kind, ex[1:3], type(e).__name__, str(e)[:200]))
    for i, r in enumerate(replies):
        if isinstance(r, str) and r.startswith("crash:"):
            out.append("op %d crashed the library: %s" % (i, r))
        if isinstance(r, str) and r.startswith("violation: "):
            out.append(r[len("violation: "):])
    return out


def basic_stats(case, py, replies):
    kinds = set()
    rows = 0
    passed = 0
    nan_rows = inf_rows = 0
    for op in case["ops"]:
        if op[0] == "new":
            kinds.update(gen.kinds_of(op[2]))
        if op[0] in ("fills", "fillsnp"):
            for d, w in op[2]:
                rows += 1
                if isinstance(w, float) and w > 0:
                    passed += 1
                for c in d[:4]:
                    if isinstance(c, float) and math.isnan(c):
                        nan_rows += 1
                        break
                for c in d[:4]:
                    if isinstance(c, float) and math.isinf(c):
                        inf_rows += 1
                        break
    raised = 0
    for r in replies:
        if isinstance(r, str) and r.startswith("raise"):
            raised += 1
        if isinstance(r, list):
            raised += sum(1 for x in r if isinstance(x, str) and x.startswith("raise"))
    st = {"rows": rows, "rows_past_gate": passed, "rows_with_nan": nan_rows, "rows_with_inf": inf_rows,
          "raising_ops": raised, "ops": len(case["ops"]), "nontrivial": 1 if passed > 0 else 0}
    for k in kinds:
        st["kind_" + k] = 1
    return st




# ---------------------------------------------------------------- Count(transform): model Hg.Model.CountT vs implementation

COUNTT_POLYS = [("w/2", [0, 0.5]), ("w*w", [0, 0, 1]), ("1", [1]), ("w+1", [1, 1]), ("w-1", [-1, 1]), ("-w", [0, -1])]


def countt_post(model, ws, chunks, sched, pick):
    """A Count with a polynomial weight transform on the weights of the case: per-row fill, vectorised fill under a weight
    array (behind a Sum in a Branch, so that the batch length is known), per-chunk fills merged in the case's schedule and the
    scalar-weight form, each against the model's `CountT` definitions (for which the laws are proved for every transform)."""
    import math

    import numpy as np

    import gen
    from wire import num_to_wire

    ws = [float(w) for w in ws]
    chunks = [[float(w) for w in c] for c in chunks]
    if any(math.isinf(w) and w > 0 for w in ws):
        return None   # the transformed weight would not be a rational
    label, cs = COUNTT_POLYS[pick % len(COUNTT_POLYS)]

    def f(w):
        return sum(float(c) * w ** i for i, c in enumerate(cs))

    hg = gen.hg
    r = model.d.send(["$countt", [num_to_wire(c) for c in cs], [num_to_wire(w) for w in ws],
                      [[num_to_wire(w) for w in c] for c in chunks], num_to_wire(len(ws))])
    if isinstance(r, dict):
        return {"what": "model driver on Count(transform %s): %r" % (label, r)}
    m_rows, m_np, m_chunks, m_scalar = r

    def branch():
        return hg.Branch(hg.Sum(lambda x: x), hg.Count(f))

    def wire_of(x):
        from fractions import Fraction

        return Fraction(float(x))   # the driver's replies arrive decoded as exact rationals

    try:
        c = hg.Count(f)
        for w in ws:
            c.fill(None, w)
        got_rows = wire_of(c.entries)
        b = branch()
        b.fill.numpy(np.zeros(len(ws)), np.array(ws, dtype=np.float64))
        got_np = wire_of(b.i1.entries)
        parts = []
        for ch in chunks:
            h = c.zero()
            for w in ch:
                h.fill(None, w)
            parts.append(h)
        got_chunks = [wire_of(h.entries) for h in parts]

        def red(sch):
            if isinstance(sch, int):
                return parts[sch]
            return red(sch[0]) + red(sch[1])

        got_total = wire_of(red(sched).entries) if (parts and sched is not None) else None
        got_scalar = None
        if ws and not math.isnan(ws[0]):
            b2 = branch()
            b2.fill.numpy(np.zeros(len(ws)), ws[0])
            c2 = hg.Count(f)
            for _ in ws:
                c2.fill(None, ws[0])
            got_scalar = [wire_of(b2.i1.entries), wire_of(c2.entries)]
    except Exception as e:  # noqa: BLE001
        return {"what": "Count(transform %s) on weights %r: %s: %s" % (label, ws, type(e).__name__, str(e)[:200])}
    for name, got, want in (("per-row fill", got_rows, m_rows), ("vectorised fill with a weight array", got_np, m_np),
                            ("per-chunk fills", got_chunks, m_chunks), ("chunks merged in the case's schedule", got_total, m_rows),
                            ("scalar weight on a batch [vectorised, per row]", got_scalar, m_scalar)):
        if got is None or (name.startswith("per-chunk") and not chunks):
            continue
        if got != want:
            return {"what": "Count(transform %s) on weights %r: %s: implementation %r, model %r" % (label, ws, name, got, want)}
    return None
