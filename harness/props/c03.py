"""C03 — vectorised (numpy) fill is observationally equal to per-row fill."""
import gen
from props import common

ID = "C03"
LEVEL = "proof"
LEVEL_TEXT = ("Lean 4 theorem fillNp_eq_rows over a transcription of every _numpy method (masked weight vectors per child, batch "
              "reductions at the leaves incl. the full NaN/+-inf analysis of Average and Deviate): for every live tree in any good "
              "state, every batch and every non-negative weight vector the vectorised fill equals the per-row fill up to zero-weight "
              "sparse bins, and successive calls on any split of a batch equal one call; the known finding C03-sum-nan is an explicit "
              "hypothesis with a kernel-checked negative witness. Tied to /repo by running fill.numpy (unit, scalar, array weights; "
              "whole and split batches; on empty and pre-filled aggregators; numpy record arrays) against the model's fillNp and "
              "against per-row fills, with the theorem's hypotheses evaluated on the model's copy of each batch and byte-wise "
              "comparison of the input arrays.")
LEVEL_NOTE = ("numpy.histogram / unique / average enter as their contracts; the scalar-weight protocol with unknown batch length is "
              "outside the model (known finding C03-scalar-weight-count-first, excluded region: scalar/unit weights on trees in which a Count is visited before the "
              "first quantity). 'Input arrays unmodified' is a frame condition checked by the harness only.")
TECHNIQUE = "Lean 4 proof (vectorised = row-wise for all trees/batches) + correspondence against a transcription of _numpy + oracle"
LEAN_MODULE = "Hg.Props.C03"
THEOREMS = ["Hg.C03.fillNp_eq_rows", "Hg.C03.fillNp_split", "Hg.C03.sum_nan_np_differs"]
CASES = {"quick": 300, "thorough": 10000}
RULE = ("random tree with at least one quantity-bearing node, a column batch of 0..12 rows over the tree's critical values (NaN, "
        "+-inf, values exactly on edges), weights: unit, a scalar, or a non-negative array (zeros included); fill.numpy of the whole "
        "batch and of a random split into successive calls, against one fill per row; contents compared up to zero-weight sparse "
        "bins/categories; input arrays compared byte-wise before/after; distinct = hash of parameters")
SHRINK_LISTS = ["rows"]

NP_WEIGHTS = [1.0, 1.0, 2.0, 3.0, 0.5, 0.25, 0.0, 0.0]


def has_quantity(spec):
    return any("q" in s for s in gen.walk(spec))


def nan_reaches_sum(spec, rows):
    """known finding C03-sum-nan: a NaN quantity reaching a Sum on the vectorised path is dropped"""
    import math

    cols = [s["q"][0] for s in gen.walk(spec) if s["k"] == "Sum"]
    return any(isinstance(r[0][c], float) and math.isnan(r[0][c]) for r in rows for c in cols)


COLLECTIONS = ("Label", "UntypedLabel", "Index", "Branch")


def scalar_weight_safe(spec):
    """known finding C03-scalar-weight-count-first: with a scalar weight, a Count-only subtree of a collection visited before
    the batch length is known gets the wrong weight.  Scalar/unit weights are generated only where the visit order keeps every Count behind the first quantity (gen.scalar_weight_safe)."""
    return gen.scalar_weight_safe(spec)


def gen_params(rng, tier):
    for _ in range(100):
        r = rng.random()
        if r < 0.12:
            spec = gen.gen_count_sibling_spec(rng)
        elif r < 0.27:
            # plain histograms (all bins Count): the vectorised fast paths (numpy.histogram, numpy.unique)
            spec = gen.gen_spec(rng, rng.randint(1, 2), kinds=["Bin", "SparselyBin", "CentrallyBin", "IrregularlyBin", "Categorize", "Count"])
        else:
            spec = gen.gen_spec(rng, rng.randint(0, 3))
        if not has_quantity(spec):
            continue
        crit = gen.critical_values(spec)
        noinf = rng.random() < (0.7 if 0.12 <= r < 0.27 else 0.35)   # a batch without infinities: several vectorised fast paths are only taken then
        rows = []
        for _i in range(rng.randint(0, 12)):
            d = gen.gen_datum(rng, crit)
            if d[gen.STR_COL] is None:
                d[gen.STR_COL] = "NaN"
            if noinf:
                for c in gen.NUM_COLS:
                    if isinstance(d[c], float) and d[c] in (float("inf"), float("-inf")):
                        d[c] = rng.choice(crit) if crit else 0.5   # edges stay well represented
            if rng.random() < 0.3:
                # exactly on the upper edge of one of the Bins of the tree (numpy.histogram closes the last bin, fill does not)
                tops = [(b["q"][0], b["high"]) for b in gen.walk(spec) if b["k"] == "Bin"]
                if tops:
                    c, hi = rng.choice(tops)
                    d[c] = hi
            rows.append([d, rng.choice(NP_WEIGHTS)])
        if rows and rng.random() < (0.5 if 0.12 <= r < 0.27 else 0.15):
            # weights that are not all one but add up to the number of rows (2, 0, 1, 1, ...)
            pat = [2.0, 0.0] * (len(rows) // 2) + [1.0] * (len(rows) % 2)
            rng.shuffle(pat)
            for r_, w_ in zip(rows, pat):
                r_[1] = w_
        if nan_reaches_sum(spec, rows):
            continue
        mode = rng.choice(["array", "array", "unit", "scalar"])
        if mode != "array" and not scalar_weight_safe(spec):
            mode = "array"
        if mode == "scalar":
            mode = ["scalar", rng.choice([2.0, 0.5, 3.0, 1.0, 1])]
        cut = rng.randint(0, len(rows))
        out = {"spec": spec, "rows": rows, "mode": mode, "cut": cut}
        stacks = [b for b in gen.walk(spec) if b["k"] == "Stack" and len(b["edges"]) > 1]
        if stacks and rng.random() < 0.3:
            # the constructor neither sorts nor rejects thresholds given out of order; fill treats each one on its own.
            # Such a tree is outside the model's well-formed trees: only the implementation-level comparison is made.
            for b in stacks:
                b["edges"] = list(reversed(b["edges"]))
            out["unsorted"] = True
        return out
    raise RuntimeError("no quantity-bearing tree generated")


def build(p):
    spec, mode = p["spec"], p["mode"]
    if mode != "array" and not scalar_weight_safe(spec):
        mode = "array"   # a shrunk tree may have left the region where scalar weights are safe
    rows = [(r[0], r[1]) for r in p["rows"]]
    eff = lambda w: 1.0 if mode == "unit" else (mode[1] if isinstance(mode, list) else w)  # noqa: E731
    ops = [("new", "v", spec), ("fillsnp", "v", rows, mode),
           ("new", "r", spec), ("fills", "r", [(d, eff(w)) for d, w in rows])]
    expect = [("reply", 1, "ok", "fill.numpy raised or modified its inputs"),
              ("eqdoc_pruned", "v", "r", "vectorised fill differs from per-row fill")]
    # the statement of the C03 theorem, evaluated on the model's copies of these states
    ops += [("mcheck", ["prune", "vp", "v"], "ok"), ("mcheck", ["prune", "rp", "r"], "ok"), ("mcheck", ["same", "vp", "rp"], True),
            ("mcheck", ["good", "r"], True), ("new", "zf", spec),
            ("mcheck", ["nphyp", "zf", [(d, eff(w)) for d, w in rows]], [True, True, True, True]),
            ("mcheck", ["goodrun", "zf", [(d, eff(w)) for d, w in rows]], True)]
    cut = min(p["cut"], len(rows))
    ops += [("new", "s", spec), ("fillsnp", "s", rows[:cut], mode), ("fillsnp", "s", rows[cut:], mode)]
    expect += [("reply", len(ops) - 2, "ok", "fill.numpy (first part of a split batch) raised"),
               ("reply", len(ops) - 1, "ok", "fill.numpy (second part of a split batch) raised"),
               ("eqdoc_pruned", "s", "r", "successive fill.numpy calls on a split batch differ from per-row fill")]
    # and on top of an aggregator that already holds row-filled data
    ops += [("new", "m", spec), ("fills", "m", [(d, eff(w)) for d, w in rows[:cut]]), ("fillsnp", "m", rows[cut:], mode)]
    ops += [("mcheck", ["prune", "mp", "m"], "ok"), ("mcheck", ["prune", "sp", "s"], "ok"), ("mcheck", ["prune", "rp2", "r"], "ok"),
            ("mcheck", ["same", "mp", "rp2"], True), ("mcheck", ["same", "sp", "rp2"], True)]
    expect += [("reply", len(ops) - 6, "ok", "fill.numpy on a pre-filled aggregator raised"),
               ("eqdoc_pruned", "m", "r", "row fills followed by fill.numpy differ from per-row fill")]
    if p.get("unsorted"):
        # thresholds out of order: not a `good` tree of the model, so the theorem's hypotheses are not asserted
        ops = [(("snap", "_skipped", "v") if (o[0] == "mcheck" and o[1][0] in ("good", "nphyp", "goodrun")) else o) for o in ops]
    return {"ops": ops, "expect": expect}


def oracle(case, py, replies):
    return common.eval_expect(case, py, replies)


def stats(case, py, replies):
    st = common.basic_stats(case, py, replies)
    p = case["params"]
    st["mode_" + (p["mode"] if isinstance(p["mode"], str) else "scalar")] = 1
    st["empty_batches"] = 1 if not p["rows"] else 0
    return st
