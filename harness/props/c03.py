"""C03 — vectorised (numpy) fill is observationally equal to per-row fill."""
import gen
from props import common

ID = "C03"
LEVEL = "proof"
LEVEL_TEXT = ("Lean 4 theorem fillNp_eq_rows over a transcription of every _numpy method (masked weight vectors per child, batch "
              "reductions at the leaves incl. the full NaN/+-inf analysis of Average and Deviate): for every live tree in any good "
              "state, every batch and every non-negative weight vector the vectorised fill equals the per-row fill up to zero-weight "
              "sparse bins, and successive calls on any split of a batch equal one call; the known finding C03-sum-nan is an explicit "
              "hypothesis with a kernel-checked negative witness. Tied to /repo by running fill.numpy (unit, scalar, array weights; "
              "whole and split batches; on empty and pre-filled aggregators; numpy record arrays) against the model's fillNp and "
              "against per-row fills, with the theorem's hypotheses evaluated on the model's copy of each batch and byte-wise "
              "comparison of the input arrays. Also proved: a vectorised fill of an empty tree computes the C02 specification (fillNp_eq_denote), and for a Count with any weight transform both vectorised forms equal per-row fills (CountT); bins of non-representable width, weights close to 1 and trees of transformed Counts are probed at the implementation level.")
LEVEL_NOTE = ("numpy.unique / average / bincount enter as their contracts; the scalar-weight protocol with unknown batch length is "
              "outside the model (known finding C03-scalar-weight-count-first, excluded region: scalar/unit weights on trees in which a Count is visited before the "
              "first quantity). 'Input arrays unmodified' is a frame condition checked by the harness only.")
TECHNIQUE = "Lean 4 proof (vectorised = row-wise for all trees/batches) + correspondence against a transcription of _numpy + oracle"
LEAN_MODULE = "Hg.Props.C03"
THEOREMS = ["Hg.C03.fillNp_eq_rows", "Hg.C03.fillNp_eq_denote", "Hg.C03.fillNp_split", "Hg.C03.sum_nan_np_differs", "Hg.C03.count_transform_np_eq_rows",
            "Hg.C03.count_transform_np_scalar_eq_rows"]
CASES = {"quick": 300, "thorough": 10000}
RULE = ("random tree with at least one quantity-bearing node, a column batch of 0..12 rows over the tree's critical values (NaN, "
        "+-inf, values exactly on edges), weights: unit, a scalar, or a non-negative array (zeros included); fill.numpy of the whole "
        "batch and of a random split into successive calls, against one fill per row; contents compared up to zero-weight sparse "
        "bins/categories; input arrays compared byte-wise before/after; distinct = hash of parameters")
SHRINK_LISTS = ["rows"]

NP_WEIGHTS = [1.0, 1.0, 2.0, 3.0, 0.5, 0.25, 0.0, 0.0]


def has_quantity(spec):
    return any("q" in s for s in gen.walk(spec))


def nan_reaches_sum(spec, rows):
    """known finding C03-sum-nan: a NaN quantity reaching a Sum on the vectorised path is dropped"""
    import math

    cols = [s["q"][0] for s in gen.walk(spec) if s["k"] == "Sum"]
    return any(isinstance(r[0][c], float) and math.isnan(r[0][c]) for r in rows for c in cols)


COLLECTIONS = ("Label", "UntypedLabel", "Index", "Branch")


def scalar_weight_safe(spec):
    """known finding C03-scalar-weight-count-first: with a scalar weight, a Count-only subtree of a collection visited before
    the batch length is known gets the wrong weight.  Scalar/unit weights are generated only where the visit order keeps every Count behind the first quantity (gen.scalar_weight_safe)."""
    return gen.scalar_weight_safe(spec)


def gen_params(rng, tier):
    for _ in range(100):
        r = rng.random()
        if r < 0.12:
            spec = gen.gen_count_sibling_spec(rng)
        elif r < 0.27:
            # plain histograms (all bins Count): the vectorised fast paths (numpy.histogram, numpy.unique)
            spec = gen.gen_spec(rng, rng.randint(1, 2), kinds=["Bin", "SparselyBin", "CentrallyBin", "IrregularlyBin", "Categorize", "Count"])
        elif r < 0.37:
            # a numeric selection (Fraction / Select over the selection column) at the top: the routed weight is value * weight
            inner = gen.gen_spec(rng, rng.randint(0, 1))
            k0 = rng.choice(["Fraction", "Select"])
            spec = {"k": k0, "q": [gen.SEL_COL, rng.choice(gen.NAMES)], ("value" if k0 == "Fraction" else "cut"): inner}
        else:
            spec = gen.gen_spec(rng, rng.randint(0, 3))
        if not has_quantity(spec):
            continue
        crit = gen.critical_values(spec)
        noinf = rng.random() < (0.7 if 0.12 <= r < 0.27 else 0.35)   # a batch without infinities: several vectorised fast paths are only taken then
        rows = []
        for _i in range(rng.randint(0, 12)):
            d = gen.gen_datum(rng, crit)
            if d[gen.STR_COL] is None:
                d[gen.STR_COL] = "NaN"
            if noinf:
                for c in gen.NUM_COLS:
                    if isinstance(d[c], float) and d[c] in (float("inf"), float("-inf")):
                        d[c] = rng.choice(crit) if crit else 0.5   # edges stay well represented
            if rng.random() < 0.3:
                # exactly on the upper edge of one of the Bins of the tree (numpy.histogram closes the last bin, fill does not)
                tops = [(b["q"][0], b["high"]) for b in gen.walk(spec) if b["k"] == "Bin"]
                if tops:
                    c, hi = rng.choice(tops)
                    d[c] = hi
            rows.append([d, rng.choice(NP_WEIGHTS)])
        if rows and rng.random() < (0.5 if 0.12 <= r < 0.27 else 0.15):
            # weights that are not all one but add up to the number of rows (2, 0, 1, 1, ...)
            pat = [2.0, 0.0] * (len(rows) // 2) + [1.0] * (len(rows) % 2)
            rng.shuffle(pat)
            for r_, w_ in zip(rows, pat):
                r_[1] = w_
        if nan_reaches_sum(spec, rows):
            continue
        mode = rng.choice(["array", "array", "unit", "scalar"])
        if 0.27 <= r < 0.37:
            mode = "array"
            for r_ in rows:
                if rng.random() < 0.4:
                    r_[1] = 0.0
        if mode != "array" and not scalar_weight_safe(spec):
            mode = "array"
        if mode == "scalar":
            mode = ["scalar", rng.choice([2.0, 0.5, 3.0, 1.0, 1])]
        if mode == "array":
            for r_ in rows:
                # a row of weight zero is skipped by the row-wise fill whatever its selection value is, +inf included
                if r_[1] == 0.0 and rng.random() < (0.8 if 0.27 <= r < 0.37 else 0.5):
                    r_[0][gen.SEL_COL] = float("inf")
        cut = rng.randint(0, len(rows))
        out = {"spec": spec, "rows": rows, "mode": mode, "cut": cut}
        stacks = [b for b in gen.walk(spec) if b["k"] == "Stack" and len(b["edges"]) > 1]
        if stacks and rng.random() < 0.3:
            # the constructor neither sorts nor rejects thresholds given out of order; fill treats each one on its own.
            # Such a tree is outside the model's well-formed trees: only the implementation-level comparison is made.
            for b in stacks:
                b["edges"] = list(reversed(b["edges"]))
            out["unsorted"] = True
        return out
    raise RuntimeError("no quantity-bearing tree generated")


def build(p):
    spec, mode = p["spec"], p["mode"]
    if mode != "array" and not scalar_weight_safe(spec):
        mode = "array"   # a shrunk tree may have left the region where scalar weights are safe
    rows = [(r[0], r[1]) for r in p["rows"]]
    eff = lambda w: 1.0 if mode == "unit" else (mode[1] if isinstance(mode, list) else w)  # noqa: E731
    ops = [("new", "v", spec), ("fillsnp", "v", rows, mode),
           ("new", "r", spec), ("fills", "r", [(d, eff(w)) for d, w in rows])]
    expect = [("reply", 1, "ok", "fill.numpy raised or modified its inputs"),
              ("eqdoc_pruned", "v", "r", "vectorised fill differs from per-row fill")]
    # the statement of the C03 theorem, evaluated on the model's copies of these states
    ops += [("mcheck", ["prune", "vp", "v"], "ok"), ("mcheck", ["prune", "rp", "r"], "ok"), ("mcheck", ["same", "vp", "rp"], True),
            ("mcheck", ["good", "r"], True), ("new", "zf", spec),
            ("mcheck", ["nphyp", "zf", [(d, eff(w)) for d, w in rows]], [True, True, True, True]),
            ("mcheck", ["goodrun", "zf", [(d, eff(w)) for d, w in rows]], True)]
    cut = min(p["cut"], len(rows))
    ops += [("new", "s", spec), ("fillsnp", "s", rows[:cut], mode), ("fillsnp", "s", rows[cut:], mode)]
    expect += [("reply", len(ops) - 2, "ok", "fill.numpy (first part of a split batch) raised"),
               ("reply", len(ops) - 1, "ok", "fill.numpy (second part of a split batch) raised"),
               ("eqdoc_pruned", "s", "r", "successive fill.numpy calls on a split batch differ from per-row fill")]
    # and on top of an aggregator that already holds row-filled data
    ops += [("new", "m", spec), ("fills", "m", [(d, eff(w)) for d, w in rows[:cut]]), ("fillsnp", "m", rows[cut:], mode)]
    ops += [("mcheck", ["prune", "mp", "m"], "ok"), ("mcheck", ["prune", "sp", "s"], "ok"), ("mcheck", ["prune", "rp2", "r"], "ok"),
            ("mcheck", ["same", "mp", "rp2"], True), ("mcheck", ["same", "sp", "rp2"], True)]
    expect += [("reply", len(ops) - 6, "ok", "fill.numpy on a pre-filled aggregator raised"),
               ("eqdoc_pruned", "m", "r", "row fills followed by fill.numpy differ from per-row fill")]
    if p.get("unsorted"):
        # thresholds out of order: not a `good` tree of the model, so the theorem's hypotheses are not asserted
        ops = [(("snap", "_skipped", "v") if (o[0] == "mcheck" and o[1][0] in ("good", "nphyp", "goodrun")) else o) for o in ops]
    return {"ops": ops, "expect": expect}


TRANSFORMS = [("halves its weight", lambda w: 0.5 * w), ("squares its weight", lambda w: w * w),
              ("counts rows, whatever their weight", lambda w: 1.0 + 0.0 * w), ("adds one to its weight", lambda w: w + 1.0)]


def transform_check(p):
    """Implementation-level (the weight transform of Count is outside the model): a tree whose Counts transform their weight
    is filled once per row and once vectorised with the case's batch and weights; a row that the per-row fill skips (weight 0,
    or routed elsewhere by a parent) contributes nothing on the vectorised path either."""
    import execs

    spec, mode = p["spec"], p["mode"]
    if p.get("unsorted") or not any(s_["k"] == "Count" for s_ in gen.walk(spec)):
        return []
    if mode != "array" and not scalar_weight_safe(spec):
        mode = "array"
    rows = [(r[0], r[1]) for r in p["rows"]]
    eff = lambda w: 1.0 if mode == "unit" else (mode[1] if isinstance(mode, list) else w)  # noqa: E731
    real_count = gen.hg.Count
    msgs = []
    for what, f in TRANSFORMS:
        def build_t():
            gen.hg.Count = lambda *a, **kw: real_count(f)
            try:
                return gen.build(spec)
            finally:
                gen.hg.Count = real_count
        try:
            v, r = build_t(), build_t()
        except Exception:  # noqa: BLE001
            return []
        try:
            data = execs.np_columns([d for d, _ in rows])
            if mode == "unit":
                v.fill.numpy(data)
            elif isinstance(mode, list):
                v.fill.numpy(data, mode[1])
            else:
                import numpy as np

                v.fill.numpy(data, np.array([float(w) for _, w in rows], dtype=np.float64))
            for d, w in rows:
                r.fill(d, eff(w))
            dd = execs.diff_doc(execs.prune_doc(execs.canon_doc(v.toJson())), execs.prune_doc(execs.canon_doc(r.toJson())))
            if dd:
                msgs.append("with Counts of which each %s: vectorised fill differs from per-row fill (zero-weight bins ignored): %s" % (what, dd))
        except Exception as e:  # noqa: BLE001
            msgs.append("with Counts of which each %s: %s: %s" % (what, type(e).__name__, str(e)[:200]))
        if msgs:
            break
    return msgs


EDGE_CFG = [(50, 0.0, 10.0), (30, 0.0, 7.0), (10, 0.0, 1.0), (7, 0.1, 0.8), (5, -1.0, 2.0), (12, -0.3, 0.9), (9, 0.0, 0.9), (25, 1.0, 3.5),
            (3, 0.0, 1.0), (6, -0.7, 1.1)]


def edge_check(p):
    """Implementation-level, on bin widths that are not exactly representable (outside exactness class E): values on and next
    to every edge of a Bin — the edge computed three ways and its two neighbouring floats — must land in the same bin under
    fill.numpy as under fill, on the fast path for plain Counts, on the general path (an infinite value in the batch) and
    for a non-Count bin content."""
    import numpy as np

    hg = gen.hg
    h_ = len(p["rows"]) * 7 + p["cut"]
    n, lo, hi = EDGE_CFG[h_ % len(EDGE_CFG)]
    xs = []
    for i in range(n + 1):
        for e in (lo + i * (hi - lo) / n, lo + i * ((hi - lo) / n), round(lo + i * (hi - lo) / n, 10)):
            xs += [float(e), float(np.nextafter(e, -np.inf)), float(np.nextafter(e, np.inf))]
    wts = [1.0, 2.0, 0.5, 4.0]
    for mode in ("plain Counts", "plain Counts and an infinite value in the batch", "Minimize in every bin"):
        def mk():
            return hg.Bin(n, lo, hi, lambda x: x, hg.Minimize(lambda x: x) if mode.startswith("Minimize") else hg.Count())
        arr = np.array(xs + ([float("inf")] if "infinite" in mode else []))
        for weighted in (False, True):
            a, b = mk(), mk()
            try:
                if weighted:
                    w = np.array([wts[i % 4] for i in range(len(arr))])
                    a.fill.numpy(arr, w)
                    for x, wi in zip(arr, w):
                        b.fill(float(x), float(wi))
                else:
                    a.fill.numpy(arr)
                    for x in arr:
                        b.fill(float(x))
            except Exception as e:  # noqa: BLE001
                return ["Bin(%d, %r, %r) with %s filled on and next to its edges: %s: %s" % (n, lo, hi, mode, type(e).__name__, str(e)[:200])]
            ja, jb = a.toJson()["data"], b.toJson()["data"]
            if ja != jb:
                ent = lambda v: v["entries"] if isinstance(v, dict) else v  # noqa: E731
                d = [(i, ent(x), ent(y)) for i, (x, y) in enumerate(zip(ja["values"], jb["values"])) if x != y][:3]
                return ["Bin(%d, %r, %r) with %s, filled on and next to its edges%s: fill.numpy and fill put values into different "
                        "bins: (bin, vectorised, per row) = %r" % (n, lo, hi, mode, " with weights" if weighted else "", d)]
    # SparselyBin: the same for bin widths / origins that are not exactly representable
    w_, o_ = SPARSE_CFG[h_ % len(SPARSE_CFG)]
    xs = []
    for i in range(-6, 30):
        for e in (o_ + i * w_, round(o_ + i * w_, 10), (i + o_ / w_) * w_):
            xs += [float(e), float(np.nextafter(e, -np.inf)), float(np.nextafter(e, np.inf))]
    for mode in ("plain Counts", "Minimize in every bin"):
        def mks():
            return hg.SparselyBin(w_, lambda x: x, hg.Minimize(lambda x: x) if mode.startswith("Minimize") else hg.Count(), origin=o_)
        arr = np.array(xs)
        for weighted in (False, True):
            a, b = mks(), mks()
            try:
                if weighted:
                    w = np.array([wts[i % 4] for i in range(len(arr))])
                    a.fill.numpy(arr, w)
                    for x, wi in zip(arr, w):
                        b.fill(float(x), float(wi))
                else:
                    a.fill.numpy(arr)
                    for x in arr:
                        b.fill(float(x))
            except Exception as e:  # noqa: BLE001
                return ["SparselyBin(%r, origin=%r) with %s filled on and next to its edges: %s: %s" % (w_, o_, mode, type(e).__name__, str(e)[:200])]
            ja, jb = a.toJson()["data"], b.toJson()["data"]
            if ja != jb:
                ent = lambda v: v["entries"] if isinstance(v, dict) else v  # noqa: E731
                keys = sorted(set(ja["bins"]) | set(jb["bins"]), key=int)
                d = [(k, ent(ja["bins"].get(k, 0.0)), ent(jb["bins"].get(k, 0.0))) for k in keys if ja["bins"].get(k) != jb["bins"].get(k)][:3]
                return ["SparselyBin(%r, origin=%r) with %s, filled on and next to its edges%s: fill.numpy and fill put values into "
                        "different bins: (bin, vectorised, per row) = %r" % (w_, o_, mode, " with weights" if weighted else "", d)]
    # CentrallyBin on and next to its midpoints, IrregularlyBin / Stack on and next to their thresholds
    cs = sorted(CENTRAL_CFG[h_ % len(CENTRAL_CFG)])
    xs = list(cs)
    for c1, c2 in zip(cs, cs[1:]):
        for m in ((c1 + c2) / 2, c1 + (c2 - c1) / 2, 0.5 * c1 + 0.5 * c2):
            xs += [float(m), float(np.nextafter(m, -np.inf)), float(np.nextafter(m, np.inf))]
    es = []
    for e in cs:
        es += [float(e), float(np.nextafter(e, -np.inf)), float(np.nextafter(e, np.inf))]
    for what, mk_, vals in (("CentrallyBin(%r)" % (cs,), lambda c: hg.CentrallyBin(cs, lambda x: x, c), xs),
                            ("IrregularlyBin(%r)" % (cs,), lambda c: hg.IrregularlyBin(cs, lambda x: x, c), es),
                            ("Stack(%r)" % (cs,), lambda c: hg.Stack(cs, lambda x: x, c), es)):
        for child in ("Count", "Minimize"):
            for weighted in (False, True):
                a, b = (mk_(hg.Count() if child == "Count" else hg.Minimize(lambda x: x)) for _ in range(2))
                arr = np.array(vals)
                w = np.array([wts[i % 4] for i in range(len(arr))])
                try:
                    if weighted:
                        a.fill.numpy(arr, w)
                        for x, wi in zip(arr, w):
                            b.fill(float(x), float(wi))
                    else:
                        a.fill.numpy(arr)
                        for x in arr:
                            b.fill(float(x))
                except Exception as e:  # noqa: BLE001
                    return ["%s of %s filled on and next to its boundaries: %s: %s" % (what, child, type(e).__name__, str(e)[:200])]
                if a.toJson() != b.toJson():
                    return ["%s of %s filled on and next to its boundaries%s: fill.numpy and fill disagree: %s"
                            % (what, child, " with weights" if weighted else "",
                               execs_diff(a.toJson(), b.toJson()))]
    return []


def near_one_check(p):
    """Implementation-level (weights that are not exactly representable sums): weights close to but different from 1 are not
    unit weights — every category / bin holds the sum of its weights, whichever fast path the batch takes."""
    import numpy as np

    hg = gen.hg
    k_ = len(p["rows"]) + p["cut"]
    wv = [1.000004, 0.999996, 1.0000001, 1.00001][k_ % 4]
    cats = ["a", "b", "a", "c", "a", "b", "a"]
    xs = [0.1, 0.2, 0.1, 0.7, 0.1, 0.2, 0.1]
    for what, mk_, data, rowval in (("Categorize of Counts", lambda: hg.Categorize(lambda d: d), np.array(cats), cats),
                                    ("SparselyBin of Counts", lambda: hg.SparselyBin(0.25, lambda d: d), np.array(xs), xs),
                                    ("Bin of Counts", lambda: hg.Bin(4, 0.0, 1.0, lambda d: d), np.array(xs), xs),
                                    ("CentrallyBin of Counts", lambda: hg.CentrallyBin([0.0, 0.5, 1.0], lambda d: d), np.array(xs), xs)):
        for mode in ("array", "scalar"):
            a, b = mk_(), mk_()
            try:
                if mode == "array":
                    a.fill.numpy(data, np.full(len(rowval), wv))
                else:
                    a.fill.numpy(data, wv)
                for v in rowval:
                    b.fill(v, wv)
            except Exception as e:  # noqa: BLE001
                return ["%s filled with weights %r (%s): %s: %s" % (what, wv, mode, type(e).__name__, str(e)[:160])]
            d = _close(a.toJson()["data"], b.toJson()["data"])
            if d:
                return ["%s filled with the %s weight %r (close to, but not, 1): vectorised and per-row fill differ: %s" % (what, mode, wv, d)]
    return []


def _close(x, y, path=""):
    num = lambda v: isinstance(v, (int, float)) and not isinstance(v, bool)  # noqa: E731
    if num(x) and num(y):
        return None if abs(x - y) <= 1e-9 * max(1.0, abs(x), abs(y)) else "%s: %r != %r" % (path, x, y)
    if type(x) is not type(y):
        return "%s: %r vs %r" % (path, x, y)
    if isinstance(x, dict):
        if set(x) != set(y):
            return "%s: keys differ" % path
        for k in x:
            r = _close(x[k], y[k], path + "/" + str(k))
            if r:
                return r
        return None
    if isinstance(x, list):
        if len(x) != len(y):
            return "%s: lengths differ" % path
        for i, (u, v) in enumerate(zip(x, y)):
            r = _close(u, v, "%s[%d]" % (path, i))
            if r:
                return r
        return None
    return None if x == y else "%s: %r != %r" % (path, x, y)


def execs_diff(x, y):
    import execs

    return execs.diff_doc(execs.canon_doc(x), execs.canon_doc(y), mode="strict")


CENTRAL_CFG = [[0.1, 0.3, 0.7, 1.9], [-2.0, 0.3, 0.7, 3.1], [1 / 3, 2 / 3, 1.0, 4 / 3], [-0.3, 0.0, 0.1 + 0.2], [0.1, 0.2, 0.30000000000000004, 0.401]]
SPARSE_CFG = [(0.1, 0.0), (3.0, 1.0), (0.3, 0.0), (0.7, 0.1), (0.1, 0.05), (1.1, -0.3), (0.2, 0.0)]


def post_model(py, model):
    from runner import dec

    p = dec(py.case["params"])
    ws = [r[1] for r in p["rows"]]
    cut = min(p["cut"], len(ws))
    return common.countt_post(model, ws, [ws[:cut], ws[cut:]], [0, 1], len(ws) + cut)


def oracle(case, py, replies):
    from runner import dec

    p = dec(case["params"])
    return common.eval_expect(case, py, replies) + transform_check(p) + edge_check(p) + near_one_check(p)


def stats(case, py, replies):
    st = common.basic_stats(case, py, replies)
    p = case["params"]
    st["mode_" + (p["mode"] if isinstance(p["mode"], str) else "scalar")] = 1
    st["empty_batches"] = 1 if not p["rows"] else 0
    return st
