"""C06 — non-interference: operations never mutate operands or share mutable state."""
import gen
from props import common

ID = "C06"
LEVEL = "proof"
LEVEL_TEXT = ("Lean 4 theorems over an abstract heap (objects, reachability, disjointness): a mutation confined to objects reachable "
              "from one root cannot change what is observable from a disjoint root, and a history in which every operation returns a "
              "result disjoint from its operands keeps all roots pairwise disjoint. The premise — which objects each operation of "
              "the real library allocates or shares — is observed on the implementation on every run (identity walk over "
              "containers, dicts and lists; templates excepted), together with the direct oracle (mutating X never changes Y).")
LEVEL_NOTE = ("The allocation behaviour of the code is observed by the harness, not modelled; CPython object identity is taken as the "
              "meaning of 'same object'. Read-only operations (==, hash, repr, toJson, accessors) are checked by state snapshots.")
TECHNIQUE = "Lean 4 proof (heap non-interference lemma, forest invariant) + observed sharing relation + interference oracle"
LEAN_MODULE = "Hg.Props.C06"
THEOREMS = ["Hg.C06.noninterference", "Hg.C06.disjoint_noninterference"]
CASES = {"quick": 260, "thorough": 8000}
RULE = ("random tree, states a, b; every pure operation (a+b, a*f, f*a, zero, copy, JSON round trip) followed by every interleaving "
        "class of mutations (row fill, vectorised fill, +=) on the result and on the sources; read-only operations (==, hash, repr, "
        "toJson); two independent constructions of the same tree (template-made children) and of one primitive through a random "
        "construction route (class, .ing synonym, convenience constructor, df.hg_X method) relying on default arguments; sharing relation "
        "computed by identity over containers/dicts/lists; distinct = hash of parameters")
SHRINK_LISTS = ["sa", "sb", "cont"]


def gen_params(rng, tier):
    spec = gen.gen_spec(rng, rng.randint(0, 3))
    if rng.random() < 0.12:
        # a plain histogram at the root: the containers that offer histogram()
        spec = gen.gen_spec(rng, rng.randint(1, 2), kinds=["Bin", "SparselyBin", "CentrallyBin", "Count", "Sum", "Average"])
    g = lambda n: [[d, w] for d, w in gen.gen_stream(rng, spec, rng.randint(0, n), gate_rate=0.05)]  # noqa: E731
    cont = g(5)
    for r in cont:
        if r[0][gen.STR_COL] is None:
            r[0][gen.STR_COL] = "NaN"
        if not (r[1] > 0):
            r[1] = 0.0   # vectorised fills take non-negative weights only
    import ctors

    ck = rng.choice(ctors.KINDS)
    cxs = [rng.choice([-3.0, -2.0, -1.0, -0.5, 0.0, 0.5, 1.0, 2.0, 3.0, float("nan"), float("inf"), float("-inf")]) for _ in range(rng.randint(1, 6))]
    return {"ctor": [ck, rng.choice(ctors.ROUTES), cxs], "spec": spec, "sa": g(7), "sb": g(6), "cont": cont, "f": rng.choice([1.0, 1, 2.0, 0.5, 1.0, 3.0, 0.0]),
            "order": rng.randint(0, 5),
            "np": any("q" in s for s in gen.walk(spec)) and not any(s["k"] == "Sum" for s in gen.walk(spec))}


def build(p):
    spec = p["spec"]
    S = lambda k: [(r[0], r[1]) for r in p[k]]  # noqa: E731
    ops = [("new", "a", spec), ("fills", "a", S("sa")), ("new", "b", spec), ("fills", "b", S("sb"))]
    expect = []
    # independently constructed aggregators share nothing (default arguments, templates)
    ops.append(("noshare", "a", "b", "two separately constructed aggregators"))
    # ... through every construction route, relying on default arguments
    if p.get("ctor"):
        ops.append(("ctors", p["ctor"][0], p["ctor"][1], p["ctor"][2]))
    # read-only operations
    ops += [("snap", "a0", "a"), ("snap", "b0", "b"), ("eq", "a", "b", 0, 0), ("hash", "a"), ("json", "a")]
    ops += [("checksnap", "a0", "a", "a read-only operation (==, hash, repr, toJson) changed its operand"),
            ("checksnap", "b0", "b", "a read-only operation changed its operand")]
    results = []
    for name, op in (("s", ("add", "s", "a", "b")), ("m", ("mul", "m", "a", p["f"])), ("rm", ("rmul", "rm", p["f"], "a")),
                     ("z", ("zero", "z", "a")), ("c", ("copy", "c", "a")), ("r", ("roundtrip", "r", "a")),
                     ("m1", ("mul", "m1", "b", 1.0))):
        ops.append(op)
        ops.append(("checksnap", "a0", "a", "a pure operation (%s) changed its operand" % op[0]))
        ops.append(("checksnap", "b0", "b", "a pure operation (%s) changed its operand" % op[0]))
        ops.append(("noshare", name, "a", "result of %s and its operand" % op[0]))
        ops.append(("noshare", name, "b", "result of %s and its operand" % op[0]))
        results.append(name)
    # mutate results and sources in one of several interleavings; nobody else may move
    cont = S("cont")
    seq = results + ["a", "b"]
    k = p["order"] % len(seq)
    seq = seq[k:] + seq[:k]
    live = {h: ("snap_" + h) for h in results + ["a", "b"]}
    for victim in seq:
        if victim == "r":
            continue  # reloaded containers cannot be filled; they are merged into below
        for h, sn in live.items():
            ops.append(("snap", sn, h))
        if p["np"] and (len(victim) % 2 == 0):
            ops.append(("fillsnp", victim, cont, "array"))
        else:
            ops.append(("fills", victim, cont))
        for h, sn in live.items():
            if h != victim:
                ops.append(("checksnap", sn, h, "filling %s changed %s" % (victim, h)))
    # derived aggregators (histogram(), toImmutable()) of a source and of a result
    ops.append(("derived", "a", cont))
    ops.append(("derived", "s", cont))
    # += into a result must not touch the sources, += of a source must not touch results
    for h, sn in live.items():
        ops.append(("snap", sn, h))
    ops.append(("iadd", "c", "b"))
    for h, sn in live.items():
        if h != "c":
            ops.append(("checksnap", sn, h, "c += b changed %s" % h))
    ops.append(("noshare", "c", "b", "c and b after c += b"))
    # the same for aggregators reloaded from JSON: they cannot be filled, but they are merged into with += just the same
    ops += [("roundtrip", "r1", "a"), ("roundtrip", "r2", "b"), ("snap", "r1_0", "r1"), ("snap", "r2_0", "r2")]
    for name, op in (("rc", ("copy", "rc", "r1")), ("rs", ("add", "rs", "r1", "r2")), ("rmu", ("mul", "rmu", "r1", p["f"])),
                     ("rz", ("zero", "rz", "r1")), ("rr", ("roundtrip", "rr", "r1"))):
        ops.append(op)
        ops.append(("checksnap", "r1_0", "r1", "a pure operation (%s) changed its reloaded operand" % op[0]))
        ops.append(("noshare", name, "r1", "result of %s and its reloaded operand" % op[0]))
        ops.append(("noshare", name, "r2", "result of %s and its reloaded operand" % op[0]))
    for victim, src in (("rc", "b"), ("rs", "a"), ("rmu", "r2"), ("rz", "b"), ("rr", "r2")):
        ops.append(("iadd", victim, src))
        ops.append(("checksnap", "r1_0", "r1", "%s += %s changed the reloaded aggregator %s was made from" % (victim, src, victim)))
        ops.append(("checksnap", "r2_0", "r2", "%s += %s changed a reloaded operand" % (victim, src)))
    return {"ops": ops, "expect": expect}


def oracle(case, py, replies):
    return common.eval_expect(case, py, replies)


stats = common.basic_stats
