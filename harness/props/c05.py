"""C05 — bookkeeping invariants: every datum lands in exactly one bin, totals conserve."""
import math
import random

import numpy as np

import execs
import gen
from gen import hg
from props import common

ID = "C05"
LEVEL = "proof"
LEVEL_TEXT = "Lean 4 theorems: the bookkeeping invariant inv (entries >= 0, bins+flows sum to entries, collection members and Fraction denominator carry the parent's entries, Stack levels antitone with level0+nanflow = entries, Bag weights sum to entries) holds for zero(), is preserved by fill, +, * and hence by every run of fills from an empty tree and (inv_history) by every history of fill / fill.numpy / + / += / * / zero() / copy() over a pool of aggregators derived from one empty tree; a vectorised fill under the hypotheses of the C03 theorem keeps it (inv_fillNp) and so does a JSON round trip (inv_reload); the regular bin index is always < num. Tied to /repo by long operation histories over a pool (row and vectorised fills, +, +=, *, copy, zero, JSON round trips) with the invariants evaluated on every live aggregator of the real library after every operation."
LEVEL_NOTE = "Exact arithmetic in the theorems; the property's floating-point clause (values within a few ulps of any edge are accepted and land in exactly one bin) is decided by the harness's edge probes on the real code (row-wise and vectorised, non-dyadic widths, large offsets), not by a theorem."
TECHNIQUE = 'Lean 4 proof (invariant by induction over operations) + history correspondence + floating-point edge probes on the implementation'
LEAN_MODULE = "Hg.Props.C05"
THEOREMS = ["Hg.C05.inv_zero", "Hg.C05.inv_fill", "Hg.C05.inv_add", "Hg.C05.inv_scale", "Hg.C05.inv_fillAll", "Hg.C05.inv_history", "Hg.C05.inv_history_tmpl", "Hg.C05.inv_fillNp",
            "Hg.C05.inv_reload", "Hg.C05.history_reload", "Hg.C05.inv_immut", "Hg.C05.binIndex_lt"]
CASES = {"quick": 260, "thorough": 8000}
RULE = ("operation histories (8..24 ops) over a pool of aggregators of one random tree: row fills, vectorised fills, +, +=, *, "
        "copy(), zero(), JSON round trips, with the invariants evaluated on every live aggregator after every operation; plus, per "
        "case, floating-point edge probes: random Bin/SparselyBin/CentrallyBin/IrregularlyBin configurations with non-dyadic widths "
        "(0.1, 1/3, large offsets), probe values within 0..3 ulps of every edge, row-wise and vectorised, which must be accepted "
        "and counted in exactly one bin; distinct = hash of parameters")
SHRINK_LISTS = ["history"]
SHRINK_SPECS = []


def gen_params(rng, tier):
    r0 = rng.random()
    if r0 < 0.15:
        spec = gen.gen_count_sibling_spec(rng)
    elif r0 < 0.3:
        # plain histograms (all bins Count): the vectorised fast paths
        spec = gen.gen_spec(rng, rng.randint(1, 2), kinds=["Bin", "SparselyBin", "CentrallyBin", "IrregularlyBin", "Categorize", "Count"])
    else:
        spec = gen.gen_spec(rng, rng.randint(0, 3))
    n = rng.randint(8, 24)
    hist = []
    handles = ["h0", "h1"]
    hist.append(["new", "h0"])
    hist.append(["new", "h1"])
    # vectorised fills need a quantity-bearing tree; keep clear of known finding C03-sum-nan
    np_ok = any("q" in s for s in gen.walk(spec)) and not any(s["k"] == "Sum" for s in gen.walk(spec))
    for i in range(n):
        k = rng.choice(["fills", "fills", "fills", "fillsnp", "add", "iadd", "mul", "copy", "zero", "roundtrip"])
        if 0.15 <= r0 < 0.3 and i % 3 == 0:
            k = "fillsnp"   # plain histograms are mostly filled through the vectorised path
        a, b = rng.choice(handles), rng.choice(handles)
        if k == "fills":
            hist.append(["fills", a, [[d, w] for d, w in gen.gen_stream(rng, spec, rng.randint(1, 4))]])
        elif k == "fillsnp":
            if not np_ok:
                continue
            rows = []
            for _ in range(rng.randint(1, 5)):
                d = gen.gen_datum(rng, gen.critical_values(spec))
                if d[gen.STR_COL] is None:
                    d[gen.STR_COL] = "NaN"
                rows.append([d, rng.choice([1.0, 2.0, 0.5, 0.0])])
            if rng.random() < (0.5 if 0.15 <= r0 < 0.3 else 0.2):
                pat = [2.0, 0.0] * (len(rows) // 2) + [1.0] * (len(rows) % 2)   # not all one, adding up to the row count
                rng.shuffle(pat)
                for r_, w_ in zip(rows, pat):
                    r_[1] = w_
            mode = "array"
            if gen.scalar_weight_safe(spec) and rng.random() < 0.4:
                # default / scalar weight, also on an empty batch (outside the region of known finding C03-scalar-weight-count-first)
                mode = rng.choice(["unit", ["scalar", 2.0], ["scalar", 0.5]])
                if rng.random() < 0.3:
                    rows = []
            hist.append(["fillsnp", a, rows, mode])
        elif k in ("add", "mul", "copy", "zero", "roundtrip"):
            nh = "h%d" % len(handles)
            if len(handles) >= 6:
                nh = rng.choice(handles[2:])
            if k == "add":
                hist.append(["add", nh, a, b])
            elif k == "mul":
                hist.append(["mul", nh, a, rng.choice([2.0, 0.5, 3.0, 0.0, 1.0, -1.0, -0.5, float("nan")])])
            else:
                hist.append([k, nh, a])
            if nh not in handles:
                handles.append(nh)
        else:
            if a != b:
                hist.append(["iadd", a, b])
    return {"spec": spec, "history": hist, "probe_seed": rng.randint(0, 10**9)}


def build(p):
    spec = p["spec"]
    ops, expect = [], []
    live = set()
    reloaded = set()
    for h in p["history"]:
        k = h[0]
        if k == "new":
            ops.append(("new", h[1], spec))
            live.add(h[1])
        elif k in ("fills", "fillsnp"):
            if h[1] not in live or h[1] in reloaded:
                continue
            if k == "fills":
                ops.append(("fills", h[1], [(r[0], r[1]) for r in h[2]]))
            else:
                ops.append(("fillsnp", h[1], [(r[0], r[1]) for r in h[2]], h[3] if gen.scalar_weight_safe(spec) else "array"))
        elif k == "add":
            if h[2] not in live or h[3] not in live:
                continue
            ops.append(("add", h[1], h[2], h[3]))
            live.add(h[1])
            # a sum with a reloaded operand holds copies of reloaded (unfillable) sparse bins: a later fill routed to one of
            # them raises half-way through a fan-out collection, which C12 explicitly leaves outside the guarantees
            (reloaded.add if (h[2] in reloaded or h[3] in reloaded) else reloaded.discard)(h[1])
        elif k == "iadd":
            if h[1] not in live or h[2] not in live:
                continue
            ops.append(("iadd", h[1], h[2]))
            if h[2] in reloaded:
                reloaded.add(h[1])   # same: the left operand adopted copies of reloaded bins
        elif k == "mul":
            if h[2] not in live:
                continue
            ops.append(("mul", h[1], h[2], h[3]))
            live.add(h[1])
            (reloaded.add if h[2] in reloaded else reloaded.discard)(h[1])
        elif k in ("copy", "zero", "roundtrip"):
            if h[2] not in live:
                continue
            ops.append((k, h[1], h[2]))
            live.add(h[1])
            if k == "roundtrip" or h[2] in reloaded:
                reloaded.add(h[1])
            else:
                reloaded.discard(h[1])
        ops.append(("checkinv",))
    expect.append(("pycheck", "c05_edge_probes", p["probe_seed"]))
    return {"ops": ops, "expect": expect}


# ------------------------------------------------------------ the invariants on a serialised tree

def _close(a, b):
    if isinstance(a, float) or isinstance(b, float):
        return False
    return abs(a - b) <= 1e-9 * max(1, abs(a), abs(b))


def ent(typ, frag):
    return frag if typ == "Count" else frag["entries"]


def inv_frag(typ, f, path, out):
    e = ent(typ, f)
    if isinstance(e, float) or e < 0:
        out.append("%s: entries is %r" % (path, e))
        return
    if typ == "Bin":
        t = f["values:type"]
        tot = sum(ent(t, v) for v in f["values"]) + ent(f["underflow:type"], f["underflow"]) + \
            ent(f["overflow:type"], f["overflow"]) + ent(f["nanflow:type"], f["nanflow"])
        if not _close(tot, e):
            out.append("%s: bins + flows sum to %s but entries is %s" % (path, tot, e))
        for i, v in enumerate(f["values"]):
            inv_frag(t, v, "%s/values[%d]" % (path, i), out)
        for fl in ("underflow", "overflow", "nanflow"):
            inv_frag(f[fl + ":type"], f[fl], path + "/" + fl, out)
    elif typ in ("SparselyBin", "Categorize"):
        t = f["bins:type"]
        tot = sum(ent(t, v) for v in f["bins"].values())
        if typ == "SparselyBin":
            tot += ent(f["nanflow:type"], f["nanflow"])
            inv_frag(f["nanflow:type"], f["nanflow"], path + "/nanflow", out)
        if not _close(tot, e):
            out.append("%s: bins + flows sum to %s but entries is %s" % (path, tot, e))
        for kk, v in f["bins"].items():
            inv_frag(t, v, "%s/bins[%s]" % (path, kk), out)
    elif typ in ("CentrallyBin", "IrregularlyBin", "Stack"):
        t = f["bins:type"]
        es = [ent(t, b["data"]) for b in f["bins"]]
        nf = ent(f["nanflow:type"], f["nanflow"])
        if typ == "Stack":
            if any(es[i] < es[i + 1] and not _close(es[i], es[i + 1]) for i in range(len(es) - 1)):
                out.append("%s: Stack levels are not non-increasing: %s" % (path, es))
            if not _close(es[0] + nf, e):
                out.append("%s: level 0 + nanflow = %s but entries is %s" % (path, es[0] + nf, e))
        elif not _close(sum(es) + nf, e):
            out.append("%s: bins + nanflow sum to %s but entries is %s" % (path, sum(es) + nf, e))
        for i, b in enumerate(f["bins"]):
            inv_frag(t, b["data"], "%s/bins[%d]" % (path, i), out)
        inv_frag(f["nanflow:type"], f["nanflow"], path + "/nanflow", out)
    elif typ == "Fraction":
        t = f["sub:type"]
        if not _close(ent(t, f["denominator"]), e):
            out.append("%s: denominator entries %s differ from entries %s" % (path, ent(t, f["denominator"]), e))
        inv_frag(t, f["numerator"], path + "/numerator", out)
        inv_frag(t, f["denominator"], path + "/denominator", out)
    elif typ == "Select":
        inv_frag(f["sub:type"], f["data"], path + "/data", out)
    elif typ in ("Label", "Index"):
        t = f["sub:type"]
        items = f["data"].items() if typ == "Label" else enumerate(f["data"])
        for kk, v in items:
            if not _close(ent(t, v), e):
                out.append("%s: member %s has entries %s, parent %s" % (path, kk, ent(t, v), e))
            inv_frag(t, v, "%s/%s" % (path, kk), out)
    elif typ in ("UntypedLabel", "Branch"):
        items = f["data"].items() if typ == "UntypedLabel" else enumerate(f["data"])
        for kk, v in items:
            if not _close(ent(v["type"], v["data"]), e):
                out.append("%s: member %s has entries %s, parent %s" % (path, kk, ent(v["type"], v["data"]), e))
            inv_frag(v["type"], v["data"], "%s/%s" % (path, kk), out)
    elif typ == "Bag":
        tot = sum(x["w"] for x in f["values"])
        if not _close(tot, e):
            out.append("%s: Bag weights sum to %s but entries is %s" % (path, tot, e))


def invariants(doc):
    out = []
    inv_frag(doc["type"], doc["data"], "", out)
    return out


def make_py():
    py = execs.PyExec()
    orig = py.apply

    def apply(op):
        if op[0] == "checkinv":
            for h, obj in list(py.pool.items()):
                bad = invariants(py.state(h))
                if bad:
                    return "violation: bookkeeping invariant broken in %s: %s" % (h, bad[0])
            return "ok"
        return orig(op)

    py.apply = apply
    return py


execs.PY_ONLY_OPS.add("checkinv")


# ------------------------------------------------------------ floating-point edge probes (class W)

def ulps(x, n):
    for _ in range(abs(n)):
        x = math.nextafter(x, math.inf if n > 0 else -math.inf)
    return x


@common.pycheck("c05_edge_probes")
def _edge_probes(py, replies, seed):
    rng = random.Random(seed)
    q = lambda d: d  # noqa: E731
    width = rng.choice([0.1, 1.0 / 3.0, 0.7, 0.01, 1e-3, 2.5, 1.1])
    off = rng.choice([0.0, 0.1, -0.3, 1e6 + 0.1, -12345.678, 1e-7])
    num = rng.choice([1, 2, 3, 7, 10, 100])
    low, high = off, off + num * width
    configs = [
        ("Bin(%d,%r,%r)" % (num, low, high), lambda: hg.Bin(num, low, high, q),
         [low + i * (high - low) / num for i in range(num + 1)] + [low + i * width for i in range(num + 1)]),
        ("SparselyBin(%r, origin=%r)" % (width, off), lambda: hg.SparselyBin(width, q, origin=off),
         [off + i * width for i in range(-3, 8)]),
    ]
    cs = sorted(set(off + width * rng.randint(-5, 20) * rng.choice([1, 0.5, 1.0 / 3]) for _ in range(rng.randint(2, 6))))
    if len(cs) >= 2:
        configs.append(("CentrallyBin(%r)" % cs, lambda: hg.CentrallyBin(cs, q), cs + [(a + b) / 2.0 for a, b in zip(cs, cs[1:])]))
        configs.append(("IrregularlyBin(%r)" % cs, lambda: hg.IrregularlyBin(cs, q), cs))
        configs.append(("Stack(%r)" % cs, lambda: hg.Stack(cs, q), cs))
    for name, mk, edges in configs:
        probes = []
        for e in edges:
            for n in (-3, -2, -1, 0, 1, 2, 3):
                probes.append(ulps(e, n))
        probes += [float("nan"), float("inf"), float("-inf")]
        h = mk()
        for x in probes:
            before = h.toJson()
            try:
                h.fill(x)
            except Exception as e:  # noqa: BLE001
                return "%s.fill(%r) raised %s: %s" % (name, x, type(e).__name__, e)
            bad = invariants(execs.canon_doc(h.toJson()))
            if bad:
                return "%s after fill(%r): %s" % (name, x, bad[0])
            if name.startswith("Stack"):
                continue
            if _changed_bins(before, h.toJson()) != 1:
                return "%s.fill(%r) changed %d bins, expected exactly one" % (name, x, _changed_bins(before, h.toJson()))
        hv = mk()
        try:
            hv.fill.numpy(np.array(probes, dtype=np.float64))
        except Exception as e:  # noqa: BLE001
            return "%s.fill.numpy(edge probes) raised %s: %s" % (name, type(e).__name__, e)
        bad = invariants(execs.canon_doc(hv.toJson()))
        if bad:
            return "%s after fill.numpy(edge probes): %s" % (name, bad[0])
    return None


def _changed_bins(before, after):
    def flat(d, path, out):
        if isinstance(d, dict):
            for k, v in d.items():
                flat(v, path + "/" + str(k), out)
        elif isinstance(d, list):
            for i, v in enumerate(d):
                flat(v, "%s[%d]" % (path, i), out)
        else:
            out[path] = d
        return out

    a, b = flat(before["data"], "", {}), flat(after["data"], "", {})
    keys = set(a) | set(b)
    return sum(1 for k in keys if a.get(k) != b.get(k) and not k.endswith("/entries") or (k.endswith("/entries") and k.count("/") > 1 and a.get(k) != b.get(k)))


def oracle(case, py, replies):
    return common.eval_expect(case, py, replies)


stats = common.basic_stats
