"""C14 — DataFrame filling is a homomorphism and agrees with direct filling."""
import copy
import math
import random

import numpy as np
import pandas as pd

import execs
import gen  # noqa: F401
from gen import hg
from props import common
from wire import cell_to_wire, doc_to_wire, num_to_wire

import histogrammar.dfinterface.pandas_histogrammar as _ph
from histogrammar.dfinterface.make_histograms import make_histograms

# the progress bar writes to stderr on every call; it is presentation only
_ph.tqdm = lambda it, **kw: it

ID = "C14"
LEVEL = "proof"
LEVEL_TEXT = ("Lean 4 theorems on a model of the dataframe interface (resolution of the bin specification of every dimension, "
              "construction of the nested tree, one vectorised fill with unit weights): the tree is a well-formed empty tree, the "
              "histogram of a feature counts the rows, equals the record-by-record fill of the same tree, and for every partition "
              "of the rows into chunks and every order/bracketing of `+` the per-chunk histograms add up to the histogram of the "
              "whole frame. Tied to /repo by running make_histograms on generated frames (float with NaN, integer, boolean, "
              "timestamp columns; 1-3 dimensional features; auto / unit / explicit bin_specs of every kind; with and without "
              "time_axis; default, shuffled, offset and date indexes) and comparing every returned histogram with the model's "
              "makeHist, plus an implementation-level oracle: entries = rows, content = an independently built tree filled from "
              "the converted columns (vectorised and row by row), chunk histograms made with the returned "
              "features/bin_specs/var_dtype/time_axis add up in a random order, identical binning on a shifted frame, frame unchanged.")
LEVEL_NOTE = ("The quantile-based automatic binning and the timestamp conversion are computed by pandas: they are outside the model "
              "(their results enter it as bin_specs / integer columns) and are covered by the oracle only. The model comparison is "
              "skipped for a feature when a value lies within 1e-9 of a bin edge (float rounding decides the bin there) and for "
              "leaf-type specifications (sum/average/deviate/min/max/bag/thresholds/fraction/cut), which the oracle covers.")
TECHNIQUE = "Lean 4 proof (tree construction, chunk additivity via C01+C03) + make_histograms-vs-model correspondence + direct-fill / chunk-sum oracle"
LEAN_MODULE = "Hg.Props.C14"
THEOREMS = ["Hg.C14.mkTree_wf", "Hg.C14.make_entries", "Hg.C14.make_eq_direct", "Hg.C14.chunks_add_up", "Hg.C14.mkTree_goodRun",
            "Hg.C14.resolve_bool", "Hg.C14.resolve_nd", "Hg.C14.resolve_empty", "Hg.C14.resolve_one"]
CASES = {"quick": 240, "thorough": 4000}
RULE = ("per case one frame of 3..30 rows with up to 11 columns, 2..7 features of 1-3 dimensions, a random binning mode and explicit "
        "bin_specs (all kinds, aliases, `{}` entries), a random partition into 1..4 chunks taken with iloc, a random index; "
        "distinct = hash of parameters")
SHRINK_LISTS = ["features"]
SHRINK_SPECS = []

FLOAT_COLS = ["xf", "yf", "zf"]     # xf, zf hold NaN; yf does not
INT_COLS = ["xi", "yi", "ci"]       # ci is 0..3
BOOL_COLS = ["xb", "yb"]
TIME_COLS = ["xt", "yt"]
ALL_COLS = FLOAT_COLS + INT_COLS + BOOL_COLS + TIME_COLS
UNIT = {"binWidth": 1.0, "origin": 0.0}
UNIT_TS = {"binWidth": pd.Timedelta(days=30).value, "origin": pd.Timestamp("2010-01-04").value}
T0 = pd.Timestamp("2020-01-01").value
HOUR = 3600 * 10 ** 9


def col_type(c):
    return "num" if c in FLOAT_COLS + INT_COLS else "bool" if c in BOOL_COLS else "time"


def gen_axis_spec(rng, c, last, allow_leaf=True):
    """an explicit specification for a numeric / timestamp column"""
    t = col_type(c)
    if t == "time":
        kind = rng.choice(["sparse", "sparse", "bin", "edges"])
        if kind == "sparse":
            return {"binWidth": rng.choice([24, 48, 168, 720]) * HOUR, "origin": T0 + rng.choice([0, -24, 100]) * HOUR}
        if kind == "bin":
            return {"num": rng.choice([2, 4, 5]), "low": T0 - 200 * HOUR, "high": T0 + 1000 * HOUR}
        return {"edges": [T0 + k * HOUR for k in sorted(rng.sample(range(-100, 900, 50), rng.randint(1, 4)))]}
    kinds = ["sparse", "sparse", "bin", "bin", "edges", "centers"]
    if last and allow_leaf and c in ("yf", "yi", "ci"):
        kinds += ["leaf"]
    kind = rng.choice(kinds)
    if kind == "sparse":
        w, o = rng.choice([0.25, 0.5, 1, 2]), rng.choice([0, 0.5, -0.25, -2])
        return rng.choice([{"binWidth": w, "origin": o}, {"bin_width": w, "bin_offset": o}, {"binWidth": w}])
    if kind == "bin":
        low = rng.choice([-4, -2.5, 0, 0.5])
        return {"num": rng.choice([1, 2, 4, 5, 8]), "low": low, "high": low + rng.choice([1, 2.5, 4, 8])}
    if kind == "edges":
        es = sorted(set(rng.randint(-16, 32) / 4.0 for _ in range(rng.randint(1, 5))))
        return {rng.choice(["edges", "bin_edges"]): es}
    if kind == "centers":
        cs = sorted(set(rng.randint(-16, 32) / 4.0 for _ in range(rng.randint(2, 5))))
        while len(cs) < 2:
            cs.append(cs[-1] + 1)
        return {rng.choice(["centers", "bin_centers"]): cs}
    leaf = rng.choice(["max", "minimize", "sum", "average", "deviate", "bag", "thresholds"] + (["fraction", "cut"] if c == "ci" else []))
    if leaf == "thresholds":
        return {"thresholds": sorted(set(rng.randint(-8, 16) / 2.0 for _ in range(rng.randint(1, 3))))}
    return {leaf: True}


def gen_params(rng, tier):
    n = rng.randint(3, 30)
    cols = {}
    for c in FLOAT_COLS:
        cols[c] = [None if (c != "yf" and rng.random() < 0.15) else rng.randint(-32, 64) / 8.0 for _ in range(n)]
    nan_col = None
    if rng.random() < 0.15:
        nan_col = rng.choice(["xf", "zf"])
        cols[nan_col] = [None] * n   # a column without any valid value
    for c in INT_COLS:
        cols[c] = [rng.randint(0, 3) if c == "ci" else rng.randint(-5, 12) for _ in range(n)]
    for c in BOOL_COLS:
        cols[c] = [rng.random() < 0.5 for _ in range(n)]
    for c in TIME_COLS:
        cols[c] = [rng.randint(-100, 900) for _ in range(n)]  # hours from 2020-01-01
    if n and rng.random() < 0.15:
        # a missing timestamp (NaT): converted to 0 ns (1970-01-01) like every other row is converted on its own
        cols["yt"][rng.randrange(n)] = None
    present = list(ALL_COLS)
    ta_mode = rng.choice(["none", "none", "none", "name", "name", "guess"])
    if ta_mode == "guess":
        present.remove("yt")
    time_axis = {"none": "", "name": "xt", "guess": True}[ta_mode]
    if ta_mode == "none" and rng.random() < 0.1:
        # a frame of nullable columns only, with rows that are missing in EVERY column (padding rows of an outer join): such a
        # row is still a row, counted by every histogram (in its nanflow)
        present = ["xf", "zf"]
        for r in set(rng.randrange(n) for _ in range(rng.randint(1, 3))):
            cols["xf"][r] = None
            cols["zf"][r] = None
    # features
    feats = []
    if rng.random() < 0.12:
        feats = None  # all columns (vs the time axis when there is one)
        present = rng.sample(present, rng.randint(2, min(5, len(present)))) + (["xt"] if ta_mode != "none" else [])
        present = sorted(set(present), key=ALL_COLS.index)
    else:
        for _ in range(rng.randint(2, 7)):
            d = min(rng.choice([1, 1, 2, 2, 3]), len(present))
            f = rng.sample(present, d)
            if ta_mode != "none" and rng.random() < 0.5 and "xt" not in f:
                f = (["xt"] + f)[:3]
            name = ":".join(f)
            if name not in feats:
                feats.append(name)
    # explicit specifications
    specs = {}
    flist = feats if feats is not None else []
    if rng.random() < 0.7:
        for c in present:
            if col_type(c) != "bool" and rng.random() < 0.3:
                specs[c] = gen_axis_spec(rng, c, last=True, allow_leaf=(c in flist))
        for f in flist:
            fc = f.split(":")
            if len(fc) > 1 and rng.random() < 0.45:
                entry = []
                for i, c in enumerate(fc):
                    if col_type(c) == "bool" or rng.random() < 0.4:
                        entry.append({})
                    else:
                        entry.append(gen_axis_spec(rng, c, last=(i == len(fc) - 1)))
                specs[f] = entry
    if nan_col is not None and feats is not None and nan_col in present and rng.random() < 0.7:
        # the column without values is histogrammed on its own, with whatever the binning mode decides for it
        if nan_col not in feats:
            feats.insert(0, nan_col)
        specs.pop(nan_col, None)
    k = rng.randint(1, min(4, n))
    assign = [rng.randrange(k) for _ in range(n)]
    for j in range(k):  # no empty chunk
        if j not in assign:
            assign[rng.randrange(n)] = j
    used = sorted(set(assign))
    assign = [used.index(a) for a in assign]
    order = list(range(len(used)))
    rng.shuffle(order)
    return {"n": n, "cols": cols, "present": present, "features": feats, "binning": rng.choice(["auto", "unit"]),
            "bin_specs": specs, "time_axis": time_axis, "assign": assign, "order": order,
            "index": rng.choice(["range", "range", "shuffled", "offset", "dates", "dup"]),
            "nbins": rng.choice([None, None, [5, 4, 3]]),
            # a non-default binning of the time axis for the first call (the chunk calls get it through the returned bin_specs)
            "time_bin": rng.choice([None, None, ["7d", "2020-01-06"], ["1d", "2019-12-30"], [3600e9 * 24 * 14, 0]])}


def build(p):
    return {"ops": [("c14", p)], "expect": [("pycheck", "c14")]}


def make_frame(p):
    n = p["n"]
    data = {}
    for c in p["present"]:
        v = p["cols"][c]
        if c in FLOAT_COLS:
            data[c] = np.array([np.nan if x is None else x for x in v], dtype="float64")
        elif c in INT_COLS:
            data[c] = np.array(v, dtype="int64")
        elif c in BOOL_COLS:
            data[c] = np.array(v, dtype=bool)
        else:
            data[c] = pd.to_datetime(np.array([np.datetime64("NaT") if h is None else np.datetime64(T0 + h * HOUR, "ns") for h in v], dtype="datetime64[ns]"))
    kind = p["index"]
    if kind == "range":
        idx = None
    elif kind == "shuffled":
        idx = list(range(n))
        random.Random(n).shuffle(idx)
    elif kind == "offset":
        idx = list(range(100, 100 + n))
    elif kind == "dates":
        idx = pd.date_range("2021-03-01", periods=n, freq="D")
    else:
        idx = [i // 2 for i in range(n)]  # duplicated labels
    return pd.DataFrame(data, index=idx)


def converted_columns(df):
    """the columns as the histograms see them: timestamps in ns (computed independently of to_ns)"""
    out = {}
    for c in df.columns:
        if c in TIME_COLS:
            raw = df[c].to_numpy().astype("datetime64[ns]")
            out[c] = np.where(np.isnat(raw), 0, raw.astype("int64"))
        else:
            out[c] = df[c].to_numpy()
    return out


def resolve_spec(specs, feature, idx):
    """documented resolution: the n-dim entry of the feature, `{}` reverting to the 1-dim setting of the
    variable, else the unit default"""
    c = feature[idx]
    default = UNIT_TS if col_type(c) == "time" else UNIT
    name = ":".join(feature)
    if len(feature) > 1 and isinstance(specs.get(name), (list, tuple)) and len(specs[name]) == len(feature):
        r = specs[name][idx]
        if not r:
            r = specs.get(c, default)
    else:
        r = specs.get(c, default)
    return r


def norm_spec(c, s):
    """a resolved specification -> canonical form ('kind', params)"""
    if col_type(c) == "bool":
        return ("categorize",)
    if "binWidth" in s or "bin_width" in s:
        return ("sparse", float(s.get("binWidth", s.get("bin_width", 1.0))), float(s.get("origin", s.get("bin_offset", 0.0))))
    if "num" in s and "low" in s and "high" in s:
        return ("bin", int(s["num"]), float(s["low"]), float(s["high"]))
    if "edges" in s or "bin_edges" in s:
        return ("irregular", [float(x) for x in s.get("edges", s.get("bin_edges"))])
    if "maximize" in s or "max" in s:
        return ("leaf", "Maximize")
    if "minimize" in s or "min" in s:
        return ("leaf", "Minimize")
    if "average" in s or "mean" in s:
        return ("leaf", "Average")
    if "deviate" in s:
        return ("leaf", "Deviate")
    if "sum" in s:
        return ("leaf", "Sum")
    if "centers" in s or "bin_centers" in s:
        return ("central", [float(x) for x in s.get("centers", s.get("bin_centers"))])
    if "thresholds" in s:
        return ("stack", [float(x) for x in s["thresholds"]])
    if "bag" in s or "range" in s:
        return ("leaf", "Bag", s.get("range", "N"))
    if "fraction" in s:
        return ("fraction",)
    if "cut" in s:
        return ("cut",)
    raise ValueError("unknown specification %r" % (s,))


def build_direct(feature, axes):
    """the primitive tree of a feature, built with the primitive API"""
    h = hg.Count()
    for c, a in reversed(list(zip(feature, axes))):
        q = (lambda d, c=c: d[c])
        k = a[0]
        if k == "categorize":
            h = hg.Categorize(quantity=q, value=h)
        elif k == "sparse":
            h = hg.SparselyBin(binWidth=a[1], origin=a[2], quantity=q, value=h)
        elif k == "bin":
            h = hg.Bin(num=a[1], low=a[2], high=a[3], quantity=q, value=h)
        elif k == "irregular":
            h = hg.IrregularlyBin(edges=a[1], quantity=q, value=h)
        elif k == "central":
            h = hg.CentrallyBin(centers=a[1], quantity=q, value=h)
        elif k == "stack":
            h = hg.Stack(thresholds=a[1], quantity=q, value=h)
        elif k == "fraction":
            h = hg.Fraction(quantity=q, value=h)
        elif k == "cut":
            h = hg.Select(quantity=q, cut=h)
        elif a[1] == "Bag":
            h = hg.Bag(quantity=q, range=a[2])
        else:
            h = getattr(hg, a[1])(quantity=q)
    return h


def shape_of(h):
    """(type, structural parameters) of every level of a histogram"""
    out = []
    while h is not None:
        t = h.name
        if t == "Bin":
            out.append((t, len(h.values), h.low, h.high))
            h = h.values[0]
        elif t == "SparselyBin":
            out.append((t, h.binWidth, h.origin))
            h = h.value
        elif t == "Categorize":
            out.append((t,))
            h = h.value
        elif t == "CentrallyBin":
            out.append((t, tuple(h.centers)))
            h = h.bins[0][1]
        elif t in ("IrregularlyBin", "Stack"):
            out.append((t, tuple(x for x, _ in h.bins)))
            h = h.bins[0][1]
        elif t == "Fraction":
            out.append((t,))
            h = h.denominator
        elif t == "Select":
            out.append((t,))
            h = h.cut
        else:
            out.append((t,))
            h = None
    return out


def near_edge(axes, feature, cols):
    """some value lies within rounding distance of a bin edge of its axis"""
    for c, a in zip(feature, axes):
        v = cols[c].astype("float64") if a[0] in ("sparse", "bin", "irregular", "central") else None
        if v is None:
            continue
        v = v[~np.isnan(v)]
        if a[0] == "sparse":
            t = (v - a[2]) / a[1]
        elif a[0] == "bin":
            t = a[1] * (v - a[2]) / (a[3] - a[2])
        else:
            continue
        if len(t) and np.any(np.abs(t - np.round(t)) < 1e-9 * np.maximum(1.0, np.abs(t))):
            # exactly representable configurations are not ambiguous: every operand is a small dyadic number
            exact = all(float(x).is_integer() for x in (np.concatenate([v, [a[1], a[2]] + ([a[3]] if a[0] == "bin" else [])]) * 8.0)) and np.all(np.abs(v) < 2 ** 40)
            if not exact:
                return True
    return False


def tol_mode(axes):
    return "tol" if any(a[0] == "leaf" and a[1] in ("Average", "Deviate", "Sum") for a in axes) else "strict"


def doc(h):
    return execs.canon_doc(h.toJson())


class C14Exec(execs.PyExec):
    def __init__(self):
        super().__init__()
        self.msgs = []
        self.model_queries = []
        self.stat = {}

    def apply(self, op):
        if op[0] != "c14":
            return super().apply(op)
        try:
            self.run(op[1])
        except Exception as e:  # noqa: BLE001
            import traceback

            self.msgs.append("the dataframe interface crashed: %s: %s | %s" % (type(e).__name__, e, traceback.format_exc()[-400:]))
        return "ok"

    def call(self, df, p, **kw):
        args = dict(binning=p["binning"])
        if p["nbins"]:
            args.update(nbins_1d=p["nbins"][0], nbins_2d=p["nbins"][1], nbins_3d=p["nbins"][2])
        args.update(kw)
        import warnings

        with warnings.catch_warnings():
            warnings.simplefilter("ignore")
            return make_histograms(df, **args)

    def run(self, p):
        msgs = self.msgs
        if p["time_axis"] and p["features"] and not any("xt" in f.split(":") for f in p["features"]):
            # a named time axis that no requested feature uses is rejected by the interface: not a case of the property
            self.stat = {"skipped": 1}
            return
        df = make_frame(p)
        keep = df.copy(deep=True)
        user_specs = copy.deepcopy(p["bin_specs"])
        extra = {}
        if p.get("time_bin") and p["time_axis"]:
            extra = {"time_width": p["time_bin"][0], "time_offset": p["time_bin"][1]}
        hists, feats, specs, tax, vdt = self.call(df, p, features=copy.deepcopy(p["features"]) or None, bin_specs=user_specs,
                                                  time_axis=p["time_axis"], ret_specs=True, **extra)
        # what the caller specified takes precedence over anything derived: it is returned unchanged
        for key, val in p["bin_specs"].items():
            if val and specs.get(key) != val:
                msgs.append("bin_specs[%r] was given as %r but %r is returned (and used)" % (key, val, specs.get(key)))
        if extra and "xt" not in p["bin_specs"] and tax == "xt":
            want = {"binWidth": float(pd.Timedelta(extra["time_width"]).value), "origin": float(pd.Timestamp(extra["time_offset"]).value)}
            if specs.get("xt") != want:
                msgs.append("time_width/time_offset %r give the time-axis specification %r, expected %r" % (p["time_bin"], specs.get("xt"), want))
        n = len(df)
        cols = converted_columns(keep)
        if p["features"] and sorted(feats) != sorted(p["features"]):
            msgs.append("returned features %r differ from the requested %r" % (feats, p["features"]))
        if set(hists) != set(feats):
            msgs.append("histograms %r do not match the returned features %r" % (sorted(hists), sorted(feats)))
        self.stat = {"features": len(feats), "dims": [len(f.split(":")) for f in feats], "chunks": len(p["order"]),
                     "model_compared": 0, "model_skipped_edge": 0, "model_skipped_leaf": 0, "binning": p["binning"]}
        plan = {}
        for f in feats:
            h = hists[f]
            feature = f.split(":")
            # 1. entries = number of rows
            if h.entries != n:
                msgs.append("feature %s: entries %r for %d rows" % (f, h.entries, n))
            # 2. the same tree filled directly from the columns
            axes = [norm_spec(c, resolve_spec(specs, feature, i)) for i, c in enumerate(feature)]
            # a leaf-type axis ends the tree
            for i, a in enumerate(axes):
                if a[0] == "leaf":
                    axes, feature = axes[: i + 1], feature[: i + 1]
                    break
            plan[f] = (feature, axes)
            mode = tol_mode(axes)
            direct = build_direct(feature, axes)
            if shape_of(direct) != shape_of(h):
                msgs.append("feature %s: the histogram has binning %r, the returned bin_specs %r describe %r"
                            % (f, shape_of(h), specs.get(f, {c: specs.get(c) for c in feature}), shape_of(direct)))
                continue
            direct.fill.numpy(np.rec.fromarrays([cols[c] for c in feature], names=list(feature)))
            d = execs.diff_doc(doc(h), doc(direct), mode=mode)
            if d:
                msgs.append("feature %s: make_histograms differs from fill.numpy of the same tree on the columns: %s" % (f, d))
            # a value within rounding distance of a bin edge: exact arithmetic may put it on the other side than the
            # floating-point index formula; the model comparison is skipped then (the row-wise one is not)
            amb = near_edge(axes, feature, cols)
            # the row-wise fill uses the same index formulas as the vectorised fill, near edges too
            rowwise = build_direct(feature, axes)
            for i in range(n):
                rowwise.fill({c: cols[c][i].item() for c in feature})
            d = execs.diff_doc(execs.prune_doc(doc(h)), execs.prune_doc(doc(rowwise)), mode=mode)
            if d:
                msgs.append("feature %s: make_histograms differs from filling the same tree row by row: %s" % (f, d))
            # model
            if any(a[0] in ("leaf", "stack", "fraction", "cut") for a in axes):
                self.stat["model_skipped_leaf"] += 1
            elif amb:
                self.stat["model_skipped_edge"] += 1
            else:
                self.stat["model_compared"] += 1
                self.model_queries.append((f, feature, specs, cols, n, doc(h)))
        # 3. chunks made with the returned specifications add up to the whole
        parts = []
        for j in range(len(p["order"])):
            rows = [i for i, a in enumerate(p["assign"]) if a == j]
            chunk = df.iloc[rows]
            ck = chunk.copy(deep=True)
            hc = self.call(chunk, p, features=list(feats), bin_specs=copy.deepcopy(specs), time_axis=tax, var_dtype=dict(vdt))
            if not chunk.equals(ck):
                msgs.append("make_histograms modified the chunk it was given")
            parts.append(hc)
        for f in feats:
            feature, axes = plan[f]
            total = None
            try:
                for j in p["order"]:
                    total = parts[j][f] if total is None else total + parts[j][f]
            except Exception as e:  # noqa: BLE001
                msgs.append("feature %s: chunk histograms made with the returned specifications cannot be added: %s: %s" % (f, type(e).__name__, e))
                continue
            d = execs.diff_doc(doc(total), doc(hists[f]), mode=tol_mode(axes))
            if d:
                msgs.append("feature %s: the histograms of %d chunks (rows %r) do not add up to the histogram of the whole frame: %s"
                            % (f, len(parts), p["assign"], d))
        # 4. identical binning on another frame
        other = keep.copy(deep=True)
        for c in other.columns:
            if c in FLOAT_COLS:
                # other values, and valid values where the first frame had none
                other[c] = (other[c] * 1.5 + 3.25).fillna(2.75)
            elif c in INT_COLS and c != "ci":
                other[c] = other[c] + 7
        ho = self.call(other, p, features=list(feats), bin_specs=copy.deepcopy(specs), time_axis=tax, var_dtype=dict(vdt))
        for f in feats:
            if shape_of(ho[f]) != shape_of(hists[f]):
                msgs.append("feature %s: the returned specifications give binning %r on another frame, %r on the original"
                            % (f, shape_of(ho[f]), shape_of(hists[f])))
        # 4b. the specifications read back from the histograms themselves (get_bin_specs) give the same binning again
        from histogrammar.dfinterface.make_histograms import get_bin_specs

        try:
            # (a leaf-type specification in a middle dimension ends the tree early: get_bin_specs then has fewer
            # specifications than the feature has dimensions and cannot be handed back for that feature)
            early = any(len(plan[f][0]) != len(f.split(":")) for f in feats)
            specs2 = get_bin_specs(hists)
            h2 = hists if early else self.call(other, p, features=list(feats), bin_specs=copy.deepcopy(specs2), time_axis=tax, var_dtype=dict(vdt))
            for f in feats:
                if len(plan[f][0]) != len(f.split(":")):
                    continue   # a leaf-type specification in a middle dimension ends the tree early: fewer specs than dimensions
                if shape_of(h2[f]) != shape_of(hists[f]):
                    msgs.append("feature %s: get_bin_specs of the histograms gives %r, which bins as %r instead of %r"
                                % (f, specs2.get(f), shape_of(h2[f]), shape_of(hists[f])))
        except Exception as e:  # noqa: BLE001
            msgs.append("get_bin_specs of the returned histograms, or reusing them, raised %s: %s" % (type(e).__name__, str(e)[:200]))
        # 5. the frame is not modified
        if not df.equals(keep) or list(df.columns) != list(keep.columns) or not df.index.equals(keep.index) or list(df.dtypes) != list(keep.dtypes):
            msgs.append("make_histograms modified the input dataframe")


def make_py():
    return C14Exec()


execs.PY_ONLY_OPS.add("c14")


def spec_to_model(c, s):
    a = norm_spec(c, s)
    if a[0] == "sparse":
        return {"k": "sparse", "width": a[1], "origin": a[2]}
    if a[0] == "bin":
        return {"k": "bin", "n": a[1], "low": a[2], "high": a[3]}
    if a[0] == "irregular":
        return {"k": "irregular", "edges": a[1]}
    if a[0] == "central":
        return {"k": "central", "centers": a[1]}
    if a[0] == "categorize":
        return {"k": "categorize"}
    return None


def post_model(py, model):
    for f, feature, specs, cols, n, want in py.model_queries:
        names = list(cols)
        # the model gets the *unresolved* bin_specs: resolution is part of what is compared
        one, many = {}, {}
        ok = True
        for key, s in specs.items():
            if isinstance(s, (list, tuple)):
                kc = key.split(":")
                if len(kc) != len(s):
                    continue
                ent = []
                for c, e in zip(kc, s):
                    if not e:
                        ent.append(None)
                    else:
                        m = spec_to_model(c, e) if col_type(c) != "bool" else {"k": "categorize"}
                        if m is None:
                            ok = False
                        ent.append(m)
                many[key] = ent
            elif key in names and col_type(key) != "bool":
                m = spec_to_model(key, s)
                if m is not None:
                    one[key] = m
                elif key in feature:
                    ok = False
        if not ok:
            continue
        feat = [{"name": c, "pos": names.index(c), "ty": col_type(c)} for c in feature]
        rows = []
        for i in range(n):
            cells = []
            for c in names:
                v = cols[c][i].item()
                if isinstance(v, bool):
                    v = "True" if v else "False"
                cells.append(cell_to_wire(v))
            rows.append(cells)
        r = model.d.send(["$framehyp", doc_to_wire({"one": one, "many": many}), doc_to_wire(feat), rows])
        if r is not True:
            return {"what": "feature %s: the hypotheses of the C14 theorems (axes resolve and are valid, every column evaluates) are %r on a real frame" % (f, r)}
        r = model.d.send(["$mkhist", "$h", "$np", doc_to_wire({"one": one, "many": many}), doc_to_wire(feat), rows])
        if r != "ok":
            return {"what": "feature %s: the model cannot build/fill the histogram (%r)" % (f, r)}
        got = model.d.send(["$json", "$h"])
        d = execs.diff_doc(execs.prune_doc(want), execs.prune_doc(got), mode="strict")
        if d:
            return {"what": "feature %s: make_histograms and the model's makeHist differ: %s" % (f, d)}
        r = model.d.send(["$mkhist", "$g", "$direct", doc_to_wire({"one": one, "many": many}), doc_to_wire(feat), rows])
        if r == "ok":
            got = model.d.send(["$json", "$g"])
            d = execs.diff_doc(execs.prune_doc(want), execs.prune_doc(got), mode="strict")
            if d:
                return {"what": "feature %s: make_histograms and the model's directHist differ: %s" % (f, d)}
    return None


@common.pycheck("c14")
def _c14(py, replies):
    return py.msgs[0] if py.msgs else None


def oracle(case, py, replies):
    return common.eval_expect(case, py, replies)


def stats(case, py, replies):
    s = dict(py.stat)
    s["nontrivial"] = 1 if s.get("features") else 0
    return s
