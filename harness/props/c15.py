"""C15 — malformed or foreign JSON is rejected, never loaded as a corrupted aggregator."""
import copy
import re
import json
import random

import gen
from props import common

ID = "C15"
LEVEL = "proof"
LEVEL_TEXT = ("Lean 4 theorems about the transcription of Factory.fromJson / every fromJsonFragment: every accepted record passes the "
              "key-set gate of its row of the schema table (no missing, no extra key, at every depth), carries a non-negative entries "
              "equal to the document's, names a registered type, and the header has exactly type/data/version with a compatible "
              "version; every toJson document is accepted. The schema table is regenerated from /repo's AST on every run and compared "
              "with the model's table by `decide` (schema_matches), so an edited key list breaks a proof obligation; all single-point "
              "mutations of generated documents are loaded on model and implementation, and an accepted document must re-serialise "
              "to itself. Also proved for EVERY document: what is accepted is an immutable aggregator of known content types, a "
              "SparselyBin with two spellings of one bin index and a Bag with a repeated value are rejected, and an accepted document "
              "whose aggregator is well-formed and uniform is a fixed point of the round trip (decode_stable_of_good).")
LEVEL_NOTE = ("Five lenient acceptances of the code are listed known findings and kept out of the generated mutations; the model mirrors "
              "the harmless bool-as-number leniency. 'Accepted implies faithful' is decided by the oracle on the implementation, not "
              "by a theorem.")
TECHNIQUE = "Lean 4 proof (decoder gates) + source-derived schema table checked by decide + exhaustive single-point mutation correspondence"
LEAN_MODULE = "Hg.Props.C15"
THEOREMS = ["Hg.C15.schema_matches", "Hg.C15.decode_keys_gate", "Hg.C15.hasKeys_spec", "Hg.C15.decode_entries", "Hg.C15.decode_count", "Hg.C15.decode_bag_nodup", "Hg.C15.decode_unknown_type", "Hg.C15.decode_header_gate", "Hg.C15.decode_complete", "Hg.C15.decode_sparse_nodup", "Hg.C15.decode_immut_fixed", "Hg.C15.decode_knownCtype", "Hg.C15.decode_stable_of_good"]
CASES = {"quick": 200, "thorough": 6000}
RULE = ("valid documents (toJson of random trees in random states) and their single-point structural mutations at every position: "
        "delete a key, add a key (names drawn from every record kind of the format), retype a value over {null,bool,number,string,"
        "list,dict}, rename/replace a type, drop/replace/duplicate a list element, negative entries, version variants. quick: 14 "
        "mutations sampled per document, thorough: up to 400 per document. An accepted document must re-serialise to itself "
        "(nothing dropped, duplicated or defaulted); every unmutated document must be accepted; a few valid documents are loaded "
        "first so that state leaking between loads is exercised; distinct = hash of parameters")
SHRINK_LISTS = ["stream"]
SHRINK_SPECS = []
KEY_POOL = ["extra", "entries", "data", "type", "sub:type", "center", "atleast", "name", "bins:name", "values:name", "w", "v",
            "version", "bins:type", "nanflow", "sum", "mean"]
RETYPE = [None, True, 3.5, "zz", [], {}, -1.0, "nan", "1.0", " 7 ", "1e3", "Infinity"]
TYPES = ["Count", "Sum", "Average", "Deviate", "Minimize", "Maximize", "Bag", "Bin", "SparselyBin", "CentrallyBin",
         "IrregularlyBin", "Stack", "Fraction", "Select", "Categorize", "Label", "UntypedLabel", "Index", "Branch"]


def _jtype(x):
    if x is None:
        return "null"
    if isinstance(x, bool):
        return "bool"
    if isinstance(x, (int, float)):
        return "num"
    if isinstance(x, str):
        return "str"
    if isinstance(x, list):
        return "list"
    return "dict"


def enumerate_mutations(doc):
    """every single-point mutation as (description, path, action, argument)"""
    out = []

    def walk(node, path):
        if isinstance(node, dict):
            for k in list(node):
                out.append(("delete key %s at %s" % (k, "/".join(map(str, path))), path, "del", k))
                for r in RETYPE:
                    if _jtype(r) != _jtype(node[k]) or (isinstance(r, float) and r < 0 and k == "entries") or (r == "nan" and k.endswith("type")):
                        out.append(("retype %s at %s to %r" % (k, "/".join(map(str, path)), r), path, "set", (k, r)))
                if k == "type" or k.endswith(":type"):
                    out.append(("unknown type at %s/%s" % ("/".join(map(str, path)), k), path, "set", (k, "Bogus")))
                    for t in TYPES:
                        if t != node[k]:
                            out.append(("type %s -> %s at %s/%s" % (node[k], t, "/".join(map(str, path)), k), path, "set", (k, t)))
                if k == "version":
                    for v in ["1.0", "0.9", "2.0", "2.2", "1", "abc", "1.x", "", "3.5"]:
                        out.append(("version %r" % v, path, "set", (k, v)))
            for k in KEY_POOL:
                if k not in node:
                    for val in (1.0, "x", {"entries": 0.0}):
                        out.append(("add key %s=%r at %s" % (k, val, "/".join(map(str, path))), path, "set", (k, val)))
            if path and path[-1] == "bins" and node and all(re.fullmatch(r"-?\d+", str(k)) for k in node):
                # the bins of a SparselyBin are keyed by integers written as strings: a second spelling of an index that is
                # already there ("01" next to "1") would make two entries of one bin
                for k in list(node):
                    alias = ("-0" + k[1:]) if k.startswith("-") else ("0" + k)
                    out.append(("alias key %s of bin %s at %s" % (alias, k, "/".join(map(str, path))), path, "set", (alias, node[k])))
            for k in list(node):
                walk(node[k], path + [k])
        elif isinstance(node, list):
            for i in range(len(node)):
                out.append(("drop element %d of %s" % (i, "/".join(map(str, path))), path, "pop", i))
                out.append(("duplicate element %d of %s" % (i, "/".join(map(str, path))), path, "dup", i))
                for r in (3.0, {}, None, "zz", [], -1.0, "-inf", True):
                    if _jtype(r) != _jtype(node[i]) or (isinstance(r, float) and r < 0):
                        out.append(("replace element %d of %s by %r" % (i, "/".join(map(str, path)), r), path, "seti", (i, r)))
            for i in range(len(node)):
                walk(node[i], path + [i])

    walk(doc, [])
    return out


def apply_mutation(doc, m):
    _, path, action, arg = m
    d = copy.deepcopy(doc)
    node = d
    for p in path:
        node = node[p]
    if action == "del":
        del node[arg]
    elif action == "set":
        node[arg[0]] = copy.deepcopy(arg[1])
    elif action == "pop":
        node.pop(arg)
    elif action == "dup":
        node.insert(arg, copy.deepcopy(node[arg]))
    elif action == "seti":
        node[arg[0]] = copy.deepcopy(arg[1])
    return d


# mutations inside the trigger region of a listed known finding (never generated; see known_findings.json)
STRUCT_PARAMS = ("low", "high", "binWidth", "origin", "center")
SUPPRESSED_PARENTS = ("values", "bins", "numerator", "denominator")


def _node(doc, path):
    for p in path:
        doc = doc[p]
    return doc


def _dup_bag_value(d):
    """some Bag in the document lists the same value twice"""
    if isinstance(d, dict):
        vs = d.get("values")
        if isinstance(vs, list) and vs and all(isinstance(x, dict) and "w" in x and "v" in x for x in vs):
            keys = [json.dumps(x["v"], sort_keys=True) for x in vs]
            if len(set(keys)) != len(keys):
                return True
        return any(_dup_bag_value(v) for v in d.values())
    if isinstance(d, list):
        return any(_dup_bag_value(v) for v in d)
    return False


def excluded(m, doc):
    desc, path, action, arg = m
    if action == "set" and arg[0] in STRUCT_PARAMS and arg[1] == "nan":
        return True   # non-finite structural parameters: outside the model (its parameters are rationals)
    if action == "set" and arg[0] == "v" and isinstance(arg[1], bool):
        return True   # a JSON boolean where a number is expected reads as 1/0 (Python: bool is a numbers.Real); for Bag values the model does not mirror it
    if action == "seti" and path and path[-1] == "v" and isinstance(arg[1], bool):
        return True   # same, for a component of a vector-valued Bag entry
    if action == "set" and (arg[0] == "name" or arg[0].endswith(":name")) and arg[0] not in _node(doc, path) and isinstance(arg[1], str):
        return True   # known finding C15-optional-name-key (accepted where the emitter never writes it, then dropped/moved)
    node = _node(doc, path)
    if action == "set" and isinstance(node, dict) and arg[0] in ("variance", "mean", "sum", "min", "max") and node.get("entries") == 0.0:
        return True   # known finding C15-empty-leaf-statistics (statistics of an empty leaf are accepted and normalised)
    if action == "set" and isinstance(node, dict) and arg[0] == "entries" and arg[1] == "nan" and "variance" in node:
        return True   # same finding: Deviate stores variance * entries, so entries = nan loses the variance
    return False


def pre_build():
    """regenerate lean/Hg/Generated/Schema.lean from /repo's source (runs before `lake build`)"""
    import extract

    extract.main()
    return None


def gen_params(rng, tier):
    spec = gen.gen_spec(rng, rng.randint(0, 3))
    stream = [[d, w] for d, w in gen.gen_stream(rng, spec, rng.randint(0, 8), gate_rate=0.05)]
    return {"spec": spec, "stream": stream, "mseed": rng.randint(0, 10**9), "n": 14 if tier == "quick" else 400,
            "warm": rng.random() < 0.5}


def build(p):
    # the valid document comes from the implementation itself ("docof" is expanded at run time)
    ops = [("new", "a", p["spec"]), ("fills", "a", [(r[0], r[1]) for r in p["stream"]])]
    expect = []
    ops.append(("roundtrip", "v", "a"))
    expect.append(("reply", len(ops) - 1, "ok", "a document produced by toJson was rejected"))
    if p["warm"]:
        # earlier loads of valid documents of other shapes must not influence later ones
        for i, s in enumerate(WARM_SPECS):
            ops.append(("new", "w%d" % i, s))
            ops.append(("roundtrip", "wr%d" % i, "w%d" % i))
            ops.append(("drop", "w%d" % i))
            ops.append(("drop", "wr%d" % i))
    ops.append(("mutations", "a", p["mseed"], p["n"]))
    return {"ops": ops, "expect": expect}


WARM_SPECS = [
    {"k": "Branch", "values": [{"k": "Count"}, {"k": "Label", "pairs": {"m0": {"k": "Sum", "q": [0, None]}}}]},
    {"k": "Stack", "q": [0, None], "edges": [0.0, 1.0], "value": {"k": "Count"}, "nanflow": {"k": "Count"}},
    {"k": "CentrallyBin", "q": [0, None], "centers": [0.0, 1.0], "value": {"k": "Bag", "q": [0, None], "range": "N"}, "nanflow": {"k": "Count"}},
    {"k": "UntypedLabel", "pairs": {"u0": {"k": "Index", "values": [{"k": "Count"}]}}},
]


def _mclass(m):
    """class of a mutation: the kind of change and, where one is set, the replacement value"""
    desc, path, action, arg = m
    kind = desc.split(" at ")[0].split(" of ")[0]
    kind = " ".join(w for w in kind.split()[:2] if not w.isdigit())
    val = ""
    if action in ("set", "seti") and isinstance(arg, tuple):
        val = repr(arg[1]) if not isinstance(arg[1], (dict, list)) or not arg[1] else type(arg[1]).__name__
    return kind + "|" + val


def expand_ops(op, py):
    """'mutations' expands into load / check / drop triples over the sampled single-point mutations"""
    if op[0] != "mutations":
        return [op]
    doc = py.pool[op[1]].toJson()
    ms = [m for m in enumerate_mutations(doc) if not excluded(m, doc)]
    rng = random.Random(op[2])
    if len(ms) > op[3]:
        # a random sample, plus the few mutations that name an unknown primitive, plus one mutation of every class
        # (kind of change x replacement value), so that no class depends on the luck of the sample
        keep = [m for m in ms if m[0].startswith("unknown type") or m[0].startswith("alias key")]
        classes = {}
        for m in ms:
            classes.setdefault(_mclass(m), []).append(m)
        picked = rng.sample(ms, op[3])
        for cls in sorted(classes):
            picked.append(rng.choice(classes[cls]))
        seen, out_ms = set(), []
        for m in picked + keep:
            key = (m[0],)
            if key not in seen:
                seen.add(key)
                out_ms.append(m)
        ms = out_ms
    out = []
    for i, m in enumerate(ms):
        d = apply_mutation(doc, m)
        out.append(("load", "m", d))
        out.append(("check_faithful", "m", d, m[0]))
        out.append(("drop", "m"))
    return out


def oracle(case, py, replies):
    return common.eval_expect(case, py, replies)


def stats(case, py, replies):
    st = common.basic_stats(case, py, replies)
    st["mutated_documents"] = sum(1 for r in replies if r in ("ok", "raise:json")) 
    st["rejected"] = sum(1 for r in replies if r == "raise:json")
    return st
