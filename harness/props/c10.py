"""C10 — incompatible aggregators are never merged silently."""
import gen
from props import common

ID = "C10"
LEVEL = "proof"
LEVEL_TEXT = 'Lean 4 theorems: any structural Mismatch (inductive: type, parameter, layout, nested child, shared sparse bin, template) makes + raise; + succeeds iff compat; += raises whenever + raises; a root-level rejected += leaves the left operand untouched. The nested-mismatch += case is false of the code (kernel-checked negative witness iadd_nested_mismatch_mutates) and is a listed known finding.'
LEVEL_NOTE = "Partial for += with a mismatch below the root (known finding C10-nested-iadd). compat's agreement with the implementation's raise/no-raise decision rests on the correspondence run over single-parameter perturbations at every depth."
TECHNIQUE = 'Lean 4 proof (mismatch => rejection) + correspondence on perturbed pairs + oracle; negative witness for the known finding'
LEAN_MODULE = "Hg.Props.C10"
THEOREMS = ["Hg.C10.mismatch_rejected", "Hg.C10.add_some_iff_compat", "Hg.C10.add_none_of_typeName", "Hg.C10.iadd_rejects", "Hg.C10.iadd_rejects_unchanged_partial", "Hg.C10.iadd_nested_mismatch_mutates"]
CASES = {"quick": 300, "thorough": 10000}
RULE = ("random tree and a copy differing in exactly one structural parameter (bin count/range, width/origin, centre, threshold "
        "incl. an extra or missing trailing one, Bag range, label set, collection size) or one child type at a random depth; "
        "both filled to arbitrary reachable states (possibly empty); + and += in both orders must raise and leave the operands "
        "untouched (for += with a mismatch below the root only the raise is required: known finding C10-nested-iadd); "
        "distinct = hash of parameters")
SHRINK_LISTS = ["sa", "sb"]
SHRINK_SPECS = []


def content_matrix(rng):
    """a sparse container (bins created on demand) whose content differs in one parameter or in its type: the operands may
    be empty or hold disjoint bins, so only the container's own content check can notice"""
    import copy

    leaf = gen.gen_spec(rng, 0, kinds=gen.LEAVES)
    if leaf["k"] == "Bag" or rng.random() < 0.3:
        r = rng.choice(["S", "N", "N2"])
        leaf = {"k": "Bag", "q": [{"S": gen.PURE_STR_COL, "N": 0, "N2": gen.VEC_COL}[r], None], "range": r}
        r2 = rng.choice([x for x in ("S", "N", "N2") if x != r])
        leaf2 = {"k": "Bag", "q": [{"S": gen.PURE_STR_COL, "N": 0, "N2": gen.VEC_COL}[r2], None], "range": r2}
        desc = "Bag range %s vs %s as content of a sparse container" % (r, r2)
    else:
        leaf2 = copy.deepcopy(leaf)
        leaf2["k"] = rng.choice([k for k in ("Sum", "Average", "Deviate", "Minimize", "Maximize") if k != leaf["k"]])
        if "q" not in leaf2:
            leaf2["q"] = [0, None]
        desc = "content type %s vs %s of a sparse container" % (leaf["k"], leaf2["k"])
    if rng.random() < 0.5:
        mk = lambda v: {"k": "Categorize", "q": [gen.STR_COL, None], "value": v}  # noqa: E731
    else:
        mk = lambda v: {"k": "SparselyBin", "q": [1, None], "width": 1, "origin": 0.0, "value": v, "nanflow": {"k": "Count"}}  # noqa: E731
    return mk(leaf), mk(leaf2), desc, 1


def gen_params(rng, tier):
    if rng.random() < 0.15:
        spec, spec2, desc, depth = content_matrix(rng)
        g = lambda s, n: [[d, w] for d, w in gen.gen_stream(rng, s, rng.randint(0, n), gate_rate=0.05)]  # noqa: E731
        return {"spec": spec, "spec2": spec2, "desc": desc, "depth": depth,
                "sa": g(spec, 4) if rng.random() < 0.6 else [], "sb": g(spec2, 4) if rng.random() < 0.6 else []}
    if rng.random() < 0.06:
        # two Stacks over the same thresholds given in different orders (a Stack keeps them as given), alone or inside a
        # Select / a Label: level i of one is not level i of the other
        import copy

        es = sorted(set(gen.dy(rng, -4, 4, 0.5) for _ in range(rng.randint(3, 5))))[:4]
        while len(es) < 2:
            es.append(es[-1] + 1.0)
        st = {"k": "Stack", "q": [rng.choice(gen.NUM_COLS), None], "edges": es, "value": gen.gen_spec(rng, rng.randint(0, 1)), "nanflow": {"k": "Count"}}
        st2 = copy.deepcopy(st)
        perm = list(es)
        while perm == es:
            rng.shuffle(perm)
        st2["edges"] = perm
        wrap = rng.choice(["none", "select", "label"])
        mk = {"none": lambda x: x, "select": lambda x: {"k": "Select", "q": [gen.BOOL_COL, None], "cut": x},
              "label": lambda x: {"k": "Label", "pairs": {"a": x}}}[wrap]
        g = lambda s, n: [[d, w] for d, w in gen.gen_stream(rng, s, rng.randint(0, n), gate_rate=0.05)]  # noqa: E731
        spec = mk(st)
        return {"spec": spec, "spec2": mk(st2), "desc": "Stack thresholds %r vs %r: permedges" % (es, perm), "depth": 0 if wrap == "none" else 1,
                "sa": g(spec, 5) if rng.random() < 0.7 else [], "sb": []}
    for _ in range(50):
        # a fifth of the cases: binning containers nested in each other over arbitrary leaves (the content checks of the
        # sparse containers meet every leaf type, Bags of every range included)
        spec = gen.gen_nested_binning_spec(rng, rng.randint(1, 2)) if rng.random() < 0.2 else gen.gen_spec(rng, rng.randint(0, 3))
        pr = gen.perturb_spec(rng, spec, allow_dupcenter=True)
        if pr is None:
            continue
        spec2, desc, depth = pr
        g = lambda s, n: [[d, w] for d, w in gen.gen_stream(rng, s, rng.randint(0, n), gate_rate=0.05)]  # noqa: E731
        return {"spec": spec, "spec2": spec2, "desc": desc, "depth": depth,
                "sa": g(spec, 6) if rng.random() < 0.8 else [], "sb": g(spec2, 6) if rng.random() < 0.8 else []}
    raise RuntimeError("no perturbation found")


def build(p):
    S = lambda k: [(r[0], r[1]) for r in p[k]]  # noqa: E731
    # a CentrallyBin with a repeated centre is only used empty: which of two equal centres a fill picks is not modelled
    sb = [] if ("dupcenter" in p["desc"] or "tiny" in p["desc"] or "permedges" in p["desc"]) else S("sb")   # (nor one whose edges moved by one float)
    ops = [("new", "a", p["spec"]), ("fills", "a", S("sa")), ("new", "b", p["spec2"]), ("fills", "b", sb),
           ("snap", "a0", "a"), ("snap", "b0", "b")]
    expect = []
    what = " (%s)" % p["desc"]
    ops.append(("add", "c", "a", "b"))
    expect.append(("raises", len(ops) - 1, "a + b did not raise for incompatible operands" + what))
    ops.append(("add", "c2", "b", "a"))
    expect.append(("raises", len(ops) - 1, "b + a did not raise for incompatible operands" + what))
    ops.append(("checksnap", "a0", "a", "a rejected + changed an operand"))
    ops.append(("checksnap", "b0", "b", "a rejected + changed an operand"))
    if p["depth"] == 0:
        ops.append(("iadd", "a", "b"))
        expect.append(("raises", len(ops) - 1, "a += b did not raise for incompatible operands" + what))
        ops.append(("checksnap", "a0", "a", "a rejected += changed the left operand"))
        ops.append(("checksnap", "b0", "b", "a rejected += changed the right operand"))
        ops.append(("iadd", "b", "a"))
        expect.append(("raises", len(ops) - 1, "b += a did not raise for incompatible operands" + what))
        ops.append(("checksnap", "b0", "b", "a rejected += changed the left operand"))
        ops.append(("checksnap", "a0", "a", "a rejected += changed the right operand"))
    else:
        # mismatch below the root: the left operand may already be partially updated when the
        # exception is raised (known finding C10-nested-iadd); the raise and the right operand are checked
        ops.append(("iadd_pyonly", "a", "b"))
        expect.append(("raises", len(ops) - 1, "a += b did not raise for incompatible operands" + what))
        ops.append(("checksnap", "b0", "b", "a rejected += changed the right operand"))
    return {"ops": ops, "expect": expect}


def oracle(case, py, replies):
    return common.eval_expect(case, py, replies)


stats = common.basic_stats
