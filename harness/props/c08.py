"""C08 — scaling by a factor equals refilling with every weight multiplied by it."""
import math

import gen
from props import common

ID = "C08"
LEVEL = "proof"
LEVEL_TEXT = 'Lean 4 theorems: h*f for f<=0/NaN is zero(); for f>0, h*f equals refilling the same stream with every weight multiplied by f (all trees, all streams); (h*f)*g = h*(f*g), h*1 = h, h*2 = h+h, scaling distributes over +, the scaled result is a good state of the same base and any further good run of fills commutes with the scaling (scale_fill, scale_fillAll); the scaled stream of a good run is a good run (goodRun_scaled), and scaling every partial result before combining them in any order and grouping equals scaling the whole-dataset aggregate (scale_partition). Tied to /repo by generated states (live and reloaded), factors {1/4,1/2,1,2,3,0,-1,nan, ints}, and continuations that fill, merge, hash and serialise the product.'
LEVEL_NOTE = "Exact arithmetic (rounding is the declared gap); commutation with JSON round trips is covered by C04's theorems plus correspondence."
TECHNIQUE = 'Lean 4 proof (scaling laws, refill theorem) + correspondence + oracle with continuations'
LEAN_MODULE = "Hg.Props.C08"
THEOREMS = ["Hg.C08.mul_nonpos", "Hg.C08.mul_eq_refill", "Hg.C08.scale_one", "Hg.C08.scale_scale", "Hg.C08.scale_two_eq_add_self", "Hg.C08.scale_add", "Hg.C08.good_scale", "Hg.C08.scale_fill", "Hg.C08.scale_fillAll", "Hg.C08.goodRun_scaled", "Hg.C08.scale_partition"]
CASES = {"quick": 300, "thorough": 10000}
RULE = ("random tree (live or reloaded from JSON), reachable states a, b, factor from {1/4,1/2,1,2,3,0,-1,nan, ints}; "
        "h*f vs refill with scaled weights, f*h, (h*f)*g vs h*(f*g), h*1, h*2 vs h+h, distribution over +, scaled partials vs scaled whole (both orders), JSON commutation, "
        "and continuations that fill / merge / hash / serialise the product; distinct = hash of parameters")
SHRINK_LISTS = ["sa", "sb", "cont"]

FACTORS = [0.25, 0.5, 1.0, 1, 2.0, 2, 3.0, 0.0, -1.0, float("nan"), 1.0, 2.0, 0.5]


def gen_params(rng, tier):
    spec = gen.gen_spec(rng, rng.randint(0, 3))
    g = lambda n: [[d, w] for d, w in gen.gen_stream(rng, spec, rng.randint(0, n), gate_rate=0.05)]  # noqa: E731
    return {"spec": spec, "sa": g(8), "sb": g(5), "cont": g(4), "f": rng.choice(FACTORS), "g": rng.choice([0.5, 2.0, 4.0, 1.0]),
            "reloaded": rng.random() < 0.3}


def build(p):
    spec, f, g = p["spec"], p["f"], p["g"]
    S = lambda k: [(r[0], r[1]) for r in p[k]]  # noqa: E731
    pos = isinstance(f, (int, float)) and not math.isnan(f) and f > 0
    ops = [("new", "a", spec), ("fills", "a", S("sa")), ("new", "b", spec), ("fills", "b", S("sb")), ("snap", "a0", "a")]
    expect = []
    src = "a"
    if p["reloaded"]:
        ops.append(("roundtrip", "ar", "a"))
        src = "ar"
    ops.append(("mul", "m", src, f))
    ops.append(("rmul", "m2", f, src))
    ops.append(("checkeq", "m", "m2", "f * h differs from h * f"))
    ops.append(("checksnap", "a0", "a", "scaling changed its operand"))
    # refill with scaled weights (empty aggregator for f <= 0 or NaN)
    ops.append(("new", "r", spec))
    if pos:
        ops.append(("fills", "r", [(d, w * f) for d, w in S("sa")]))
    ops.append(("checkeq", "m", "r", "h * f differs from refilling with weights * f" if pos else "h * f for f <= 0 or NaN is not the empty aggregator"))
    if pos:
        ops.append(("mul", "mg", "m", g))
        ops.append(("mul", "m_fg", src, f * g))
        ops.append(("checkeq", "mg", "m_fg", "(h*f)*g differs from h*(f*g)"))
        ops.append(("add", "ab", src, "b"))
        ops.append(("mul", "abf", "ab", f))
        ops.append(("mul", "bf", "b", f))
        ops.append(("add", "af_bf", "m", "bf"))
        ops.append(("checkeq", "abf", "af_bf", "scaling does not distribute over +"))
        # scaled partial results combine (either order) to the scaled whole-dataset aggregate (scale_partition)
        ops.append(("new", "w", spec))
        ops.append(("fills", "w", S("sa") + S("sb")))
        ops.append(("mul", "wf", "w", f))
        ops.append(("add", "bf_af", "bf", "m"))
        ops.append(("checkeq", "wf", "af_bf", "scaled partial results do not add up to the scaled whole"))
        ops.append(("checkeq", "wf", "bf_af", "scaled partial results combined in the other order differ from the scaled whole"))
    ops.append(("mul", "one", src, 1))
    ops.append(("checkeq", "one", src, "h * 1 differs from h"))
    ops.append(("mul", "two", src, 2))
    ops.append(("add", "hh", src, src))
    ops.append(("checkeq", "two", "hh", "h * 2 differs from h + h"))
    # commutes with JSON round trips
    ops.append(("roundtrip", "mr", "m"))
    ops.append(("checkeq", "mr", "m", "scaled result does not survive a JSON round trip"))
    ops.append(("roundtrip", "ra", src))
    ops.append(("mul", "ra_f", "ra", f))
    ops.append(("checkeq", "ra_f", "m", "reload then scale differs from scale"))
    # the product is a first-class aggregator
    ops.append(("hash", "m"))
    expect.append(("reply", len(ops) - 1, "ok", "hash/repr of the scaled result raised"))
    ops.append(("hash", "one"))
    expect.append(("reply", len(ops) - 1, "ok", "hash/repr of h*1 raised"))
    ops.append(("add", "mm", "m", "m"))
    expect.append(("noraise", len(ops) - 1, "merging the scaled result raised"))
    if not p["reloaded"]:
        for h in ("m", "one", "two"):
            ops.append(("snap", "src_before_" + h, src))
            ops.append(("fills", h, S("cont")))
            expect.append(("pycheck", "all_ok_or_gate", len(ops) - 1))
            ops.append(("checksnap", "src_before_" + h, src, "filling the scaled result changed the original (shared state)"))
        ops.append(("fills", "r", S("cont")))
        ops.append(("checkeq", "m", "r", "scaled result and refilled twin diverge under further fills"))
        ops.append(("snap", "m_before", "m"))
        ops.append(("fills", src, S("cont")))
        ops.append(("checksnap", "m_before", "m", "filling the original changed the scaled result (shared state)"))
    return {"ops": ops, "expect": expect}


@common.pycheck("all_ok_or_gate")
def _ok(py, replies, i):
    bad = [x for x in replies[i] if x != "ok"]
    return ("filling the scaled result raised: %s" % bad[:2]) if bad else None


def oracle(case, py, replies):
    return common.eval_expect(case, py, replies)


stats = common.basic_stats
