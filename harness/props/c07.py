"""C07 — in-place merge (+=) agrees with pure merge (+)."""
import gen
from props import common

ID = "C07"
LEVEL = "proof"
LEVEL_TEXT = 'Lean 4 theorem that the code-order model of += (iaddCode) yields exactly addRaw for compatible operands; object identity / absence of shared state after += cannot be expressed in the value model and is decided by the harness on the real objects (snapshots before/after continuations on both operands).'
LEVEL_NOTE = 'Aliasing part is observed on the implementation (differential + oracle), not proved; content part is proved on the model and tied by correspondence.'
TECHNIQUE = 'Lean 4 proof (content) + correspondence + aliasing oracle on real objects'
LEAN_MODULE = "Hg.Props.C07"
THEOREMS = ["Hg.C07.iadd_eq_add", "Hg.C07.iadd_eq_add_sameBase"]
CASES = {"quick": 300, "thorough": 10000}
RULE = ("random tree, two reachable states a, b of it (either may be empty; sparse key sets overlap or not), s = a + b, "
        "then a += b, then continuations that keep filling b and a; distinct = hash of parameters")
SHRINK_LISTS = ["sa", "sb", "cb", "ca"]


def gen_params(rng, tier):
    spec = gen.gen_spec(rng, rng.randint(0, 3))
    g = lambda n: [[d, w] for d, w in gen.gen_stream(rng, spec, rng.randint(0, n), gate_rate=0.05)]  # noqa: E731
    return {"spec": spec, "sa": g(7) if rng.random() < 0.85 else [], "sb": g(7) if rng.random() < 0.9 else [],
            "cb": g(4), "ca": g(4), "rev_b": rng.random() < 0.5,
            # the left operand may be a container reloaded from JSON (it can still be merged into, not filled)
            "reload_a": rng.random() < 0.25}


def build(p):
    spec = p["spec"]
    S = lambda k: [(r[0], r[1]) for r in p[k]]  # noqa: E731
    spec_b = spec
    if p.get("rev_b"):
        # b is the same tree with the members of every Label / UntypedLabel given in the opposite order
        import copy

        spec_b = copy.deepcopy(spec)
        for node in gen.walk(spec_b):
            if node["k"] in ("Label", "UntypedLabel"):
                node["order"] = "rev"
    if p.get("reload_a"):
        # a is reloaded from its own serialisation before the in-place merge
        ops = [("new", "a1", spec), ("fills", "a1", S("sa")), ("roundtrip", "a", "a1"), ("new", "b", spec_b), ("fills", "b", S("sb")),
               ("add", "s", "a", "b"), ("snap", "b0", "b")]
        expect = []
        ops.append(("iadd", "a", "b"))
        expect.append(("reply", len(ops) - 1, "ok", "a += b raised for compatible operands (a reloaded from JSON)"))
        ops.append(("checkeq", "a", "s", "content of a after a += b differs from (old a) + b (a reloaded from JSON)"))
        ops.append(("checksnap", "b0", "b", "a += b changed b"))
        expect.append(("pycheck", "same_object", "a"))
        ops.append(("snap", "a1s", "a"))
        ops.append(("fills", "b", S("cb")))
        ops.append(("checksnap", "a1s", "a", "filling b after a += b changed a (shared state)"))
        ops.append(("add", "s2", "s", "b"))
        ops.append(("iadd", "a", "b"))
        ops.append(("checkeq", "a", "s2", "second += differs from +"))
        return {"ops": ops, "expect": expect}
    ops = [("new", "a", spec), ("fills", "a", S("sa")), ("new", "b", spec_b), ("fills", "b", S("sb")),
           ("add", "s", "a", "b"), ("snap", "b0", "b")]
    expect = []
    ops.append(("iadd", "a", "b"))
    expect.append(("reply", len(ops) - 1, "ok", "a += b raised for compatible operands"))
    ops.append(("checkeq", "a", "s", "content of a after a += b differs from (old a) + b"))
    ops.append(("checksnap", "b0", "b", "a += b changed b"))
    expect.append(("pycheck", "same_object", "a"))
    # later changes to b must not leak into a, and vice versa
    ops.append(("snap", "a1", "a"))
    ops.append(("fills", "b", S("cb")))
    ops.append(("checksnap", "a1", "a", "filling b after a += b changed a (shared state)"))
    ops.append(("snap", "b1", "b"))
    ops.append(("snap", "s1", "s"))
    ops.append(("fills", "a", S("ca")))
    ops.append(("checksnap", "b1", "b", "filling a after a += b changed b (shared state)"))
    # (the pure sum taken before the in-place merge is the yardstick of this property: it must not move with its operands)
    ops.append(("checksnap", "s1", "s", "filling a changed the sum a + b taken earlier (the yardstick shares state with its operand)"))
    # the merged a is a first-class aggregator: it continues like the pure sum
    ops.append(("fills", "s", S("ca")))
    ops.append(("checkeq", "a", "s", "a += b then fill differs from (a + b) then fill"))
    # a second in-place merge of the advanced b
    ops.append(("add", "s2", "s", "b"))
    ops.append(("iadd", "a", "b"))
    ops.append(("checkeq", "a", "s2", "second += differs from +"))
    return {"ops": ops, "expect": expect}


@common.pycheck("same_object")
def _same(py, replies, h):
    return None if py.same_object.get(h, True) else "a is no longer the same object after a += b"


def oracle(case, py, replies):
    return common.eval_expect(case, py, replies)


stats = common.basic_stats
