"""C01 — merge is a commutative monoid homomorphism: partition-invariant aggregation."""
import execs
import gen
from props import common

ID = "C01"
LEVEL = "proof"
LEVEL_TEXT = "Theorems in Lean 4 over the executable model: zero is a two-sided identity, + is commutative and associative on states of one live tree, merge is a homomorphism for fill, fill-of-concatenation equals merge of fills, and partition invariance for every list of chunks and every reduction schedule (unbounded trees, streams, partitions, schedules); the model is tied to /repo on every run by a differential correspondence run over generated partitions/schedules, which also evaluates the theorems' hypotheses on the reached states. Also proved: the same partition invariance with every chunk filled by one vectorised fill (np_partition_invariant, tied by fill.numpy chunk runs), and for a Count with any weight transform (CountT model, tied by a driver query on every case's weights)."
LEVEL_NOTE = 'Exact-rational arithmetic with nan/+-inf (IEEE rounding of sums/means/variances is the declared gap); hypotheses good/hasTmpl/noBins/sameBase/goodRun are executable and checked on the real runs; model-to-code tie is differential (harness), not a translation.'
TECHNIQUE = 'Lean 4 proof over a hand-written model + model/implementation correspondence + implementation-level oracle'
LEAN_MODULE = "Hg.Props.C01"
THEOREMS = ["Hg.C01.add_zero_right", "Hg.C01.add_zero_left", "Hg.C01.add_comm", "Hg.C01.add_assoc", "Hg.C01.fill_add_hom",
            "Hg.C01.fillAll_append", "Hg.C01.partition_invariant", "Hg.C01.np_partition_invariant", "Hg.C01.count_transform_partition_invariant"]
CASES = {"quick": 320, "thorough": 12000}
RULE = ("random tree spec (all 19 primitives, depth<=3), stream of <=14 weighted records over the tree's critical values "
        "incl. NaN/+-inf and gate weights, random partition into 1..5 chunks (empty ones allowed), random reduction "
        "schedule; distinct = hash of the op list; non-trivial = at least one fill passed the weight gate")


def gen_sched(rng, items):
    """random binary reduction tree over `items` (already permuted)"""
    if len(items) == 1:
        return items[0]
    cut = rng.randint(1, len(items) - 1)
    return [gen_sched(rng, items[:cut]), gen_sched(rng, items[cut:])]


SHRINK_LISTS = ["stream"]


def gen_params(rng, tier):
    spec = gen.gen_spec(rng, rng.randint(0, 3))
    n = rng.randint(0, 14)
    stream = gen.gen_stream(rng, spec, n)
    k = rng.randint(1, 5)
    cuts = sorted(rng.randint(0, n) for _ in range(k - 1))
    bounds = [0] + cuts + [n]
    # every row carries the index of its chunk, so that dropping a row keeps the partition consistent
    rows = []
    for c in range(k):
        for d, w in stream[bounds[c]:bounds[c + 1]]:
            rows.append([d, w, c])
    order = list(range(k))
    rng.shuffle(order)
    sched = gen_sched(rng, order)
    return {"spec": spec, "stream": rows, "k": k, "sched": sched}


def build(p):
    spec, k = p["spec"], p["k"]
    stream = [(r[0], r[1]) for r in p["stream"]]
    chunks = [[(r[0], r[1]) for r in p["stream"] if r[2] == c] for c in range(k)]
    ops = [("new", "w", spec), ("fills", "w", stream)]
    for i, c in enumerate(chunks):
        ops.append(("new", "p%d" % i, spec))
        ops.append(("fills", "p%d" % i, c))
    counter = [0]

    def emit(s):
        if isinstance(s, int):
            return "p%d" % s
        a, b = emit(s[0]), emit(s[1])
        h = "r%d" % counter[0]
        counter[0] += 1
        ops.append(("add", h, a, b))
        return h

    top = emit(p["sched"])
    expect = [("eqdoc", top, "w", "partition invariance")]
    # zero is a two-sided identity
    ops.append(("zero", "z", "w"))
    ops.append(("add", "wz", "w", "z"))
    ops.append(("add", "zw", "z", "w"))
    expect += [("eqdoc", "wz", "w", "w + zero == w"), ("eqdoc", "zw", "w", "zero + w == w")]
    # commutativity / associativity on reachable states
    if k >= 2:
        ops.append(("add", "c1", "p0", "p1"))
        ops.append(("add", "c2", "p1", "p0"))
        expect.append(("eqdoc", "c1", "c2", "commutativity"))
    if k >= 3:
        ops.append(("add", "a1", "c1", "p2"))
        ops.append(("add", "a23", "p1", "p2"))
        ops.append(("add", "a2", "p0", "a23"))
        expect.append(("eqdoc", "a1", "a2", "associativity"))
    for i, op in enumerate(ops):
        if op[0] == "add":
            expect.append(("noraise", i, "merging partial results of one tree must not raise"))
    # np_partition_invariant: each chunk filled by ONE vectorised fill with its weight vector, merged in the same schedule,
    # equals the whole up to zero-weight bins — where the vectorised fill's own domain applies (non-negative finite weights,
    # a quantity-bearing tree, no NaN reaching a Sum: known finding C03-sum-nan)
    import math

    from props import c03 as _c03

    def np_ok(w):
        return isinstance(w, (int, float)) and not isinstance(w, bool) and math.isfinite(w) and w >= 0

    if _c03.has_quantity(spec) and all(np_ok(w) for _, w in stream) and not _c03.nan_reaches_sum(spec, [[d, w] for d, w in stream]):
        for i, c in enumerate(chunks):
            ops.append(("new", "n%d" % i, spec))
            ops.append(("fillsnp", "n%d" % i, c, "array"))
            expect.append(("reply", len(ops) - 1, "ok", "fill.numpy of a chunk raised or modified its inputs"))
        ncount = [0]

        def emit_np(s_):
            if isinstance(s_, int):
                return "n%d" % s_
            a, b = emit_np(s_[0]), emit_np(s_[1])
            h = "nr%d" % ncount[0]
            ncount[0] += 1
            ops.append(("add", h, a, b))
            expect.append(("noraise", len(ops) - 1, "merging vectorised partial results of one tree must not raise"))
            return h

        ntop = emit_np(p["sched"])
        expect.append(("eqdoc_pruned", ntop, "w", "partition invariance with vectorised chunk fills"))
        ops += [("mcheck", ["prune", "ntp", ntop], "ok"), ("mcheck", ["prune", "wp", "w"], "ok"), ("mcheck", ["same", "ntp", "wp"], True)]
    # the hypotheses of the C01 theorems, evaluated on the model's copies of these very states
    ops.append(("new", "zf", spec))
    for name in ("iszero", "hastmpl", "nobins", "good"):
        ops.append(("mcheck", [name, "zf"], True))
    ops.append(("mcheck", ["goodrun", "zf", stream], True))
    for c in chunks:
        ops.append(("mcheck", ["goodrun", "zf", c], True))
    for i in range(k):
        ops.append(("mcheck", ["good", "p%d" % i], True))
        ops.append(("mcheck", ["samebase", "p0", "p%d" % i], True))
    return {"ops": ops, "expect": expect}


def transform_check(p):
    """Implementation-level (a weight transform of Count is outside the model): with a linear transform the merge laws hold
    just the same — chunks filled into empty copies and merged in the case's schedule equal the single fill; zero() is a
    two-sided identity; copy() equals the original."""
    import copy as _copy

    spec, k = p["spec"], p["k"]
    if not any(s_["k"] == "Count" for s_ in gen.walk(spec)):
        return []
    real_count = gen.hg.Count
    half = lambda w: 0.5 * w  # noqa: E731

    def build_t():
        # every Count of the tree halves the weight it is given (Count's documented `transform`)
        gen.hg.Count = lambda *a, **kw: real_count(half)
        try:
            return gen.build(spec)
        finally:
            gen.hg.Count = real_count

    def doc(h):
        return execs.canon_doc(h.toJson())

    try:
        whole = build_t()
    except Exception:  # noqa: BLE001
        return []
    stream = [(r[0], r[1]) for r in p["stream"]]
    chunks = [[(r[0], r[1]) for r in p["stream"] if r[2] == c] for c in range(k)]
    msgs = []
    try:
        for d, w in stream:
            whole.fill(d, w)
        parts = []
        for c in chunks:
            h = whole.zero()
            for d, w in c:
                h.fill(d, w)
            parts.append(h)

        def red(sch):
            if isinstance(sch, int):
                return parts[sch]
            return red(sch[0]) + red(sch[1])

        total = red(_copy.deepcopy(p["sched"]))
        d = execs.diff_doc(doc(total), doc(whole))
        if d:
            msgs.append("with Counts that halve their weight: the merged chunks differ from the single fill: %s" % d)
        for name, x in (("whole + zero", whole + whole.zero()), ("zero + whole", whole.zero() + whole), ("copy", whole.copy())):
            d = execs.diff_doc(doc(x), doc(whole))
            if d:
                msgs.append("with Counts that halve their weight: %s differs from the aggregate: %s" % (name, d))
    except Exception as e:  # noqa: BLE001
        msgs.append("with Counts that halve their weight: %s: %s" % (type(e).__name__, str(e)[:200]))
    return msgs


def post_model(py, model):
    import copy as _copy

    from runner import dec

    p = dec(py.case["params"])
    ws = [r[1] for r in p["stream"]]
    chunks = [[r[1] for r in p["stream"] if r[2] == c] for c in range(p["k"])]
    # the model's whole-stream value is order-free (C01.count_transform_partition_invariant), so the chunk-wise order is fine
    return common.countt_post(model, [w for c in chunks for w in c], chunks, _copy.deepcopy(p["sched"]), len(ws) + p["k"])


def oracle(case, py, replies):
    from runner import dec

    return common.eval_expect(case, py, replies) + transform_check(dec(case["params"]))


stats = common.basic_stats
