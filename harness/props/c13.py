"""C13 — derived views (bin edges, centres, entries, grids, projections) agree with fill."""
import json
import math
import random

import numpy as np

import execs
import gen
from gen import hg
from props import common
from wire import num_to_wire

ID = "C13"
LEVEL = "proof"
LEVEL_TEXT = ("Lean 4 theorems (exact arithmetic) over the transcription of the accessors: for Bin the number of edges is one more "
              "than the number of bins, centres and entries have one element per bin, every centre lies strictly between its "
              "edges, edges are strictly increasing, and the bin the views report for a value is the bin `fill` routes it to "
              "(views and fill describe the same partition); the corresponding statements for SparselyBin (edges, entries, routing inside the 64-bit index range), CentrallyBin (fill = index(greater=True), lower/upper lookups differ only on midpoints) and IrregularlyBin (fill = _lower_index). Tied to /repo by evaluating num_bins / bin_edges / bin_centers / "
              "bin_entries (full range, sub-ranges on and between edges, xvalues) of Bin, SparselyBin, CentrallyBin and "
              "IrregularlyBin on model and implementation for dyadic configurations, plus an implementation-level oracle for mutual "
              "consistency, the 2-D grids and x/y projections against the filled data, and Categorize labels/entries/mpv.")
LEVEL_NOTE = ("Exact part only: near-edge sub-range queries on non-dyadic configurations are outside what exact arithmetic predicts; "
              "they are probed by the oracle and fail today for Bin (np.isclose's absolute tolerance, an absorbed eps): known finding "
              "C13-bin-near-edge. Sub-ranges entirely outside the binned domain are outside the claim.")
TECHNIQUE = "Lean 4 proof (view consistency, views agree with route) + accessor correspondence + consistency/grid/projection oracle"
LEAN_MODULE = "Hg.Props.C13"
THEOREMS = ["Hg.C13.binIndex_spec", "Hg.C13.sparse_idx_spec", "Hg.C13.edges_length", "Hg.C13.centers_length", "Hg.C13.entries_length",
            "Hg.C13.center_between", "Hg.C13.route_in_edges", "Hg.C13.entryAt_route",
            "Hg.C13.sparse_edges_length", "Hg.C13.sparse_entries_length", "Hg.C13.sparse_edges_get", "Hg.C13.sparse_entries_get",
            "Hg.C13.sparse_route_idx", "Hg.C13.sparse_entryAt_route", "Hg.C13.central_pick_eq_index", "Hg.C13.central_index_lt",
            "Hg.C13.central_index_eq_of_no_tie", "Hg.C13.central_entries_centers_length", "Hg.C13.irregular_pick_lowerIndex"]
CASES = {"quick": 260, "thorough": 8000}
RULE = ("per case one 1-D container (Bin / SparselyBin / CentrallyBin / IrregularlyBin over Count or a profile leaf) with a dyadic "
        "configuration, filled with 0..14 records, queried with the full range and 6 sub-ranges (bounds on edges, between edges, "
        "one-sided) and 6 xvalues; one 2-D histogram (Bin x Bin or Sparse x Sparse) whose grid and projections are recomputed from the "
        "data; one Categorize; distinct = hash of parameters")
SHRINK_LISTS = ["xs"]
SHRINK_SPECS = []


def gen_params(rng, tier):
    kind = rng.choice(["Bin", "Bin", "SparselyBin", "CentrallyBin", "IrregularlyBin"])
    value = rng.choice([{"k": "Count"}, {"k": "Count"}, {"k": "Sum", "q": [1, None]}, {"k": "Average", "q": [1, None]}])
    cnt = {"k": "Count"}
    if kind == "Bin":
        n = rng.choice([1, 2, 4, 5, 8])
        low = gen.dy(rng, -4, 2, 0.5)
        high = low + n * rng.choice([0.25, 0.5, 1.0, 2.0])
        spec = {"k": "Bin", "q": [0, None], "n": n, "low": low, "high": high, "value": value, "underflow": cnt, "overflow": cnt, "nanflow": cnt}
        edges = [low + i * (high - low) / n for i in range(n + 1)]
    elif kind == "SparselyBin":
        w = rng.choice([0.25, 0.5, 1.0, 2.0])
        o = gen.dy(rng, -2, 2, 0.25)
        spec = {"k": "SparselyBin", "q": [0, None], "width": w, "origin": o, "value": value, "nanflow": cnt}
        edges = [o + i * w for i in range(-6, 8)]
    elif kind == "CentrallyBin":
        cs = sorted(set(gen.dy(rng, -4, 4, 0.5) for _ in range(6)))[:rng.randint(2, 5)]
        while len(cs) < 2:
            cs.append(cs[-1] + 1.0)
        spec = {"k": "CentrallyBin", "q": [0, None], "centers": cs, "value": value, "nanflow": cnt}
        edges = [(a + b) / 2 for a, b in zip(cs, cs[1:])] + cs
    else:
        es = sorted(set(gen.dy(rng, -4, 4, 0.5) for _ in range(5)))[:rng.randint(1, 4)]
        spec = {"k": "IrregularlyBin", "q": [0, None], "edges": es, "value": value, "nanflow": cnt}
        edges = list(es)
    pts = sorted(set(edges + [e + 0.125 for e in edges] + [e - 0.125 for e in edges]))
    xs = []
    for _ in range(rng.randint(0, 14)):
        # +-inf saturates the SparselyBin index at +-2**63: its full-range views would enumerate 1.8e19 bins
        specials = [float("nan")] if kind == "SparselyBin" else [float("nan"), float("inf"), float("-inf")]
        x = rng.choice(pts) if rng.random() < 0.8 else rng.choice(specials)
        xs.append([x, rng.randint(-8, 8) / 4.0, rng.choice([1.0, 1.0, 2.0, 0.5])])
    finite = [p for p in pts]
    queries = [[None, None]]
    for _ in range(6):
        a, b = sorted(rng.sample(finite, 2)) if len(finite) >= 2 else (finite[0], finite[0] + 1)
        r = rng.random()
        queries.append([a, b] if r < 0.7 else ([a, None] if r < 0.85 else [None, b]))
    # bounds within numpy.isclose distance of an edge (implementation-only: the exact model does not
    # predict isclose semantics) — the views must still be mutually consistent on dyadic configurations
    near = []
    if kind == "Bin":
        # interior edges only: a bound within isclose distance of the lowest edge is known finding C13-bin-near-edge
        inner = [e for e in edges[1:-1]]
        for _ in range(3 if inner else 0):
            e = rng.choice(inner)
            hi = e + abs(e) * 2e-7 + 6e-9 if rng.random() < 0.7 else e - abs(e) * 2e-7 - 6e-9
            if hi > edges[0]:
                near.append([None if rng.random() < 0.5 else edges[0], hi])
    xvals = [rng.choice(finite) for _ in range(6)]
    return {"spec": spec, "xs": xs, "queries": queries, "near": near, "xvals": xvals, "seed2d": rng.randint(0, 10**9), "edges": edges,
            # the views are also asked of derived states with the same content: a copy, a sum with the empty tree, a product
            # by one, a pickled clone, a container reloaded from JSON
            "derive": rng.choice(["none", "none", "none", "copy", "addzero", "mul1", "pickle", "reload"])}


def rows_of(p):
    out = []
    for x, y, w in p["xs"]:
        d = [x, y, 0.0, 0.0, "a", True, [0.0, 0.0], "a"]
        out.append((d, w))
    return out


def build(p):
    ops = [("new", "h", p["spec"]), ("fills", "h", rows_of(p))]
    dv = p.get("derive", "none")
    if dv != "none":
        # replaces h by an aggregator of identical content; the model's h is replaced the same way
        ops += {"copy": [("copy", "h", "h")], "addzero": [("zero", "hz", "h"), ("add", "h", "h", "hz")], "mul1": [("mul", "h", "h", 1.0)],
                "pickle": [("pickle", "h", "h")], "reload": [("roundtrip", "h", "h")]}[dv]
    ops.append(("c13", p))
    return {"ops": ops, "expect": [("pycheck", "c13")]}


def inside_domain(spec, low, high):
    """queries the property covers: low < high and overlapping the binned domain"""
    if spec["k"] == "Bin":
        if low is not None and low >= spec["high"]:
            return False
        if high is not None and high <= spec["low"]:
            return False
        if low is not None and low < spec["low"] and high is not None and high < spec["low"]:
            return False
    return True


def arr(x):
    return [float(v) for v in np.asarray(x).tolist()]


class C13Exec(execs.PyExec):
    def __init__(self):
        super().__init__()
        self.msgs = []
        self.queries = []

    def apply(self, op):
        if op[0] != "c13":
            return super().apply(op)
        try:
            self.run(op[1])
        except Exception as e:  # noqa: BLE001
            import traceback

            self.msgs.append("an accessor raised %s: %s | %s" % (type(e).__name__, e, traceback.format_exc()[-400:]))
        return "ok"

    def run(self, p):
        h = self.pool["h"]
        spec = p["spec"]
        k = spec["k"]
        msgs = self.msgs
        filled = k != "SparselyBin" or len(h.bins) > 0
        for qi, (low, high) in enumerate(list(p["queries"]) + list(p.get("near", []))):
            is_near = qi >= len(p["queries"])
            if not inside_domain(spec, low, high):
                continue
            if k == "SparselyBin" and not filled:
                continue
            if k == "SparselyBin" and ((low is not None and low >= h.high) or (high is not None and high <= h.low)):
                continue   # the query does not overlap the filled (binned) domain: outside the claim
            kw = {}
            if low is not None:
                kw["low"] = low
            if high is not None:
                kw["high"] = high
            nb = int(h.num_bins(**kw))
            ent = arr(h.bin_entries(**kw))
            cen = arr(h.bin_centers(**kw))
            edg = arr(h.bin_edges(**kw))
            q = (low, high)
            if k == "IrregularlyBin" or k == "CentrallyBin":
                pass
            if len(ent) != nb or len(cen) != nb:
                msgs.append("%s%r: num_bins=%d but %d entries and %d centres" % (k, q, nb, len(ent), len(cen)))
            if len(edg) != nb + 1:
                msgs.append("%s%r: num_bins=%d but %d edges" % (k, q, nb, len(edg)))
            else:
                for i in range(nb):
                    if not (edg[i] < edg[i + 1]):
                        msgs.append("%s%r: edges not increasing: %r" % (k, q, edg))
                        break
                    c = cen[i]
                    lo_e, hi_e = edg[i], edg[i + 1]
                    if math.isinf(lo_e) or math.isinf(hi_e):
                        continue
                    if not (lo_e < c < hi_e):
                        msgs.append("%s%r: centre %r not between its edges (%r, %r)" % (k, q, c, lo_e, hi_e))
                        break
            # the entries reported for a sub-range are the contents of the bins whose edges they are
            if len(edg) == nb + 1 and len(ent) == nb and k in ("Bin", "SparselyBin"):
                for i in range(nb):
                    mid = (edg[i] + edg[i + 1]) / 2
                    got = arr(h.bin_entries(xvalues=[mid]))[0]
                    if got != ent[i]:
                        msgs.append("%s%r: bin_entries says %r for the bin [%r, %r) but bin_entries(xvalues=[%r]) says %r"
                                    % (k, q, ent[i], edg[i], edg[i + 1], mid, got))
                        break
            if not is_near:
                self.queries.append(("view", k, low, high, {"numbins": nb, "entries": ent, "centers": cen, "edges": edg}))
        # a datum filled at x is reported in the bin whose edges contain x
        for x in p["xvals"]:
            before = arr(h.bin_entries(xvalues=[x]))[0]
            g = gen.build(spec)
            for d, w in rows_of(p):
                g.fill(d, w)
            g.fill([x, 0.0, 0.0, 0.0, "a", True, [0.0, 0.0], "a"], 1.0)
            after = arr(g.bin_entries(xvalues=[x]))[0]
            in_range = not (k == "Bin" and (x < spec["low"] or x >= spec["high"]))
            if in_range and after != before + 1.0:
                msgs.append("%s: after filling x=%r once more, bin_entries(xvalues=[x]) went from %r to %r" % (k, x, before, after))
            if k == "Bin" and in_range:
                e = arr(g.bin_edges())
                i = int(g.bin(x))
                if not (e[i] <= x < e[i + 1]):
                    msgs.append("Bin: fill puts x=%r into bin %d whose edges are [%r, %r)" % (x, i, e[i], e[i + 1]))
            self.queries.append(("viewat", k, x, before))
        self.other_views(h, k, spec, p)
        self.grid_checks(p)

    def other_views(self, h, k, spec, p):
        """the remaining read views — range(), n_bins, mpv, the summary properties of SparselyBin, center()/value()/
        neighbors() of CentrallyBin — describe the same partition as bin_edges / bin_entries / fill"""
        msgs = self.msgs
        try:
            edges_all = arr(h.bin_edges()) if k != "CentrallyBin" else None
            ent_all = arr(h.bin_entries())
            cen_all = arr(h.bin_centers())
            if h.n_bins != len(ent_all) and not (k == "SparselyBin"):
                msgs.append("%s: n_bins is %r but bin_entries() has %d entries" % (k, h.n_bins, len(ent_all)))
            if len(ent_all) and sum(ent_all) > 0:
                want = cen_all[max(range(len(ent_all)), key=lambda i: (ent_all[i], -i))]
                if h.mpv != want:
                    msgs.append("%s: mpv is %r, the fullest bin (lowest index on ties) is centred at %r" % (k, h.mpv, want))
            if k == "Bin":
                for i in range(len(ent_all)):
                    lo, hi = h.range(i)
                    if (lo, hi) != (edges_all[i], edges_all[i + 1]):
                        msgs.append("Bin: range(%d) is %r but bin_edges gives (%r, %r)" % (i, (lo, hi), edges_all[i], edges_all[i + 1]))
                        break
                if h.bin_width() != edges_all[1] - edges_all[0]:
                    msgs.append("Bin: bin_width() %r differs from the distance of the first two edges %r" % (h.bin_width(), edges_all[1] - edges_all[0]))
            elif k == "SparselyBin":
                keys = sorted(h.bins)
                if keys:
                    if (h.numFilled, h.minBin, h.maxBin, h.num) != (len(keys), keys[0], keys[-1], keys[-1] - keys[0] + 1):
                        msgs.append("SparselyBin: numFilled/minBin/maxBin/num are %r for filled bins %r" % ((h.numFilled, h.minBin, h.maxBin, h.num), keys))
                    if (h.low, h.high) != (h.range(keys[0])[0], h.range(keys[-1])[1]):
                        msgs.append("SparselyBin: low/high %r differ from the outer edges of the filled range %r" % ((h.low, h.high), (h.range(keys[0])[0], h.range(keys[-1])[1])))
                    if (edges_all[0], edges_all[-1]) != (h.low, h.high):
                        msgs.append("SparselyBin: bin_edges spans %r, low/high are %r" % ((edges_all[0], edges_all[-1]), (h.low, h.high)))
                    for i in keys:
                        if h.at(i) is not h.bins[i]:
                            msgs.append("SparselyBin: at(%d) is not the bin with that index" % i)
                            break
                    if h.at(keys[-1] + 1) is not None:
                        msgs.append("SparselyBin: at() of an unfilled index is not None")
                for x in p["xvals"]:
                    i = h.bin(x)
                    lo, hi = h.range(i)
                    if not (lo <= x < hi):
                        msgs.append("SparselyBin: bin(%r) = %d but range(%d) = [%r, %r)" % (x, i, i, lo, hi))
                        break
            elif k == "CentrallyBin":
                cs = list(h.centers)
                if cs != sorted(cs) or cs != list(cen_all):
                    msgs.append("CentrallyBin: centers %r, bin_centers() %r" % (cs, list(cen_all)))
                for x in p["xvals"]:
                    c = h.center(x)
                    lo, hi = h.range(c)
                    if not (lo <= x < hi) and not (x == hi):   # a value on a midpoint belongs to the upper bin; range() of the lower bin ends there
                        msgs.append("CentrallyBin: center(%r) = %r but range(%r) = [%r, %r)" % (x, c, c, lo, hi))
                        break
                    # (CentrallyBin.value(x) is shadowed by the instance attribute `value`, the bin template: not a view)
                    below, above = h.neighbors(c)
                    j = cs.index(c)
                    if (below, above) != (cs[j - 1] if j > 0 else None, cs[j + 1] if j + 1 < len(cs) else None):
                        msgs.append("CentrallyBin: neighbors(%r) = %r in centres %r" % (c, (below, above), cs))
                        break
        except Exception as e:  # noqa: BLE001
            msgs.append("%s: a read view raised %s: %s" % (k, type(e).__name__, str(e)[:200]))

    def generic_grid(self, rng, data, qx, qy):
        from histogrammar.plot.hist_numpy import get_2dgrid

        qc = gen.make_quantity(4)

        def mk_inner():
            k = rng.choice(["Bin", "SparselyBin", "Categorize"])
            if k == "Bin":
                return hg.Bin(rng.choice([2, 3]), 0.0, 2.0, qy, hg.Count())
            if k == "SparselyBin":
                return hg.SparselyBin(0.5, qy, hg.Count())
            return hg.Categorize(qc, hg.Count())

        ko = rng.choice(["Bin", "SparselyBin", "Categorize", "CentrallyBin", "IrregularlyBin"])
        if ko == "Bin":
            h = hg.Bin(rng.choice([2, 3, 4]), 0.0, 2.0, qx, mk_inner())
        elif ko == "SparselyBin":
            h = hg.SparselyBin(0.5, qx, mk_inner())
        elif ko == "Categorize":
            h = hg.Categorize(gen.make_quantity(7), mk_inner())
        elif ko == "CentrallyBin":
            h = hg.CentrallyBin([0.0, 1.0, 2.5], qx, mk_inner())
        else:
            h = hg.IrregularlyBin([0.0, 1.0, 2.0], qx, mk_inner())
        rows = []
        for d, w in data:
            if not all(isinstance(v, float) and not math.isinf(v) for v in d[:2]):
                continue
            d = list(d)
            d[4] = rng.choice(["a", "b", "c"])
            d[7] = rng.choice(["p", "q", "r"])
            rows.append((d, w))

        def items(o):
            return list(dict(o.bins).items()) if hasattr(o, "bins") else list(enumerate(o.values))

        want = {}
        for d, w in rows:
            h.fill(d, w)
            probe = h.zero()
            probe.fill(d, w)
            for xk, sub in items(probe):
                for yk, cell in items(sub):
                    if cell.entries != 0:
                        key = (str(sub._center_from_key(yk)), str(probe._center_from_key(xk)))
                        want[key] = want.get(key, 0.0) + cell.entries
        if not rows:
            return
        try:
            xl, yl, grid = get_2dgrid(h)
        except Exception as e:  # noqa: BLE001
            self.msgs.append("get_2dgrid of %s x %s raised %s: %s" % (h.name, type(items(h)[0][1]).__name__ if items(h) else "?", type(e).__name__, e))
            return
        got = {}
        for j, y in enumerate(yl):
            for i, x in enumerate(xl):
                if grid[j, i] != 0:
                    got[(y, x)] = got.get((y, x), 0.0) + float(grid[j, i])
        if got != want:
            miss = {k: v for k, v in want.items() if got.get(k) != v}
            extra = {k: v for k, v in got.items() if k not in want}
            self.msgs.append("get_2dgrid of %s over %s differs from where fill put the data: cells (y, x) missing or wrong %r, unexpected %r"
                             % (h.name, items(h)[0][1].name if items(h) else "?", miss, extra))

    def grid_checks(self, p):
        """2-D grids / projections and Categorize views against the filled data"""
        rng = random.Random(p["seed2d"])
        msgs = self.msgs
        qx, qy = gen.make_quantity(0), gen.make_quantity(1)
        nx, ny = rng.choice([2, 3, 4]), rng.choice([2, 3])
        data = []
        for _ in range(rng.randint(0, 16)):
            x = rng.choice([rng.randint(-4, 12) / 4.0, float("nan"), float("inf")]) if rng.random() < 0.2 else rng.randint(-4, 12) / 4.0
            y = rng.choice([rng.randint(-4, 12) / 4.0, float("nan"), float("-inf"), 2.0]) if rng.random() < 0.3 else rng.randint(-4, 12) / 4.0
            data.append(([x, y, 0.0, 0.0, "a", True, [0.0, 0.0], "a"], rng.choice([1.0, 2.0, 0.5])))
        h2 = hg.Bin(nx, 0.0, 2.0, qx, hg.Bin(ny, 0.0, 2.0, qy, hg.Count()))
        for d, w in data:
            h2.fill(d, w)
        want = np.zeros((ny, nx))
        for (d, w) in data:
            x, y = d[0], d[1]
            if 0.0 <= x < 2.0 and 0.0 <= y < 2.0:
                want[int(y * ny // 2.0), int(x * nx // 2.0)] += w
        xr, yr, grid = h2.xy_ranges_grid()
        if grid.shape != want.shape or not np.array_equal(grid, want):
            msgs.append("2-D grid of Bin x Bin differs from the in-range weights: %r vs %r" % (grid.tolist(), want.tolist()))
        px = [v.entries for v in h2.project_on_x().values]
        py_ = [v.entries for v in h2.project_on_y().values]
        if px != want.sum(axis=0).tolist():
            msgs.append("x projection %r differs from the column sums of the grid %r" % (px, want.sum(axis=0).tolist()))
        if py_ != want.sum(axis=1).tolist():
            msgs.append("y projection %r differs from the row sums of the grid %r" % (py_, want.sum(axis=1).tolist()))
        # sparse x sparse
        s2 = hg.SparselyBin(0.5, qx, hg.SparselyBin(0.5, qy, hg.Count()))
        fin = [(d, w) for d, w in data if all(isinstance(v, float) and math.isfinite(v) for v in d[:2])]
        # rows with a finite x and a NaN y are filled too: they go to the nanflow of their x slice, which no y bin, no grid
        # cell and no projection counts
        nany = [(d, w) for d, w in data if isinstance(d[0], float) and math.isfinite(d[0]) and isinstance(d[1], float) and math.isnan(d[1])]
        for d, w in fin + (nany if fin else []):
            s2.fill(d, w)
        if fin:
            xr, yr, g = s2.xy_ranges_grid()
            tot = sum(w for _, w in fin)
            if abs(float(g.sum()) - tot) > 1e-9:
                msgs.append("2-D grid of SparselyBin x SparselyBin sums to %r, the data weigh %r" % (float(g.sum()), tot))
            # cell by cell: column = x index - lowest x index, row = y index - lowest y index (gaps stay empty)
            xi = sorted(s2.bins)
            yi = sorted(j for b in s2.bins.values() for j in b.bins)
            if xi and yi:
                x0, y0 = xi[0], yi[0]
                if tuple(np.asarray(g).shape) != (yi[-1] - y0 + 1, xi[-1] - x0 + 1):
                    msgs.append("2-D grid of SparselyBin x SparselyBin has shape %r for x indices %d..%d and y indices %d..%d"
                                % (tuple(np.asarray(g).shape), x0, xi[-1], y0, yi[-1]))
                else:
                    for i in range(x0, xi[-1] + 1):
                        for j in range(y0, yi[-1] + 1):
                            wantc = sum(w for d, w in fin if math.floor(d[0] / 0.5) == i and math.floor(d[1] / 0.5) == j)
                            if float(g[j - y0, i - x0]) != wantc:
                                msgs.append("2-D grid of SparselyBin x SparselyBin: cell (x index %d, y index %d) holds %r, the data give %r"
                                            % (i, j, float(g[j - y0, i - x0]), wantc))
                                break
            sx = s2.project_on_x()
            for i, b in sx.bins.items():
                wantx = sum(w for d, w in fin if math.floor(d[0] / 0.5) == i)
                if b.entries != wantx:
                    msgs.append("sparse x projection bin %d holds %r, the data give %r" % (i, b.entries, wantx))
            sy = s2.project_on_y()
            for j, b in sy.bins.items():
                wanty = sum(w for d, w in fin if math.floor(d[1] / 0.5) == j)
                if b.entries != wanty:
                    msgs.append("sparse y projection bin %d holds %r, the data give %r" % (j, b.entries, wanty))
        # the views are read-only and repeatable: asking twice gives the same answer and the histogram is untouched
        for name, hh in (("Bin x Bin", h2), ("SparselyBin x SparselyBin", s2)):
            if hh.entries == 0:
                continue
            before = json.dumps(hh.toJson(), sort_keys=True)

            def snap(hh=hh):
                xr, yr, g = hh.xy_ranges_grid()
                return (np.asarray(g).tolist(), json.dumps(hh.project_on_x().toJson(), sort_keys=True),
                        json.dumps(hh.project_on_y().toJson(), sort_keys=True))

            try:
                first, second = snap(), snap()
            except Exception as e:  # noqa: BLE001
                msgs.append("a 2-D view of %s raised %s: %s" % (name, type(e).__name__, e))
                continue
            if first != second:
                msgs.append("the 2-D views of %s give different answers when asked twice" % name)
            if json.dumps(hh.toJson(), sort_keys=True) != before:
                msgs.append("computing the 2-D views of %s changed the histogram itself" % name)
        # generic 2-D grid (plot.hist_numpy.get_2dgrid) for every outer x inner combination: the grid holds exactly the weight
        # `fill` routes to each (x bin, y bin) pair
        self.generic_grid(rng, data, qx, qy)
        # Categorize: labels / entries / mpv agree with the bins
        c = hg.Categorize(gen.make_quantity(4), hg.Count())
        cats = [rng.choice(["a", "b", "c", "dd"]) for _ in range(rng.randint(0, 10))]
        for s in cats:
            c.fill([0.0, 0.0, 0.0, 0.0, s, True, [0.0, 0.0], "a"], 1.0)
        labels = list(c.bin_labels())
        ents = arr(c.bin_entries())
        if sorted(labels) != sorted(set(cats)) or len(ents) != len(labels):
            msgs.append("Categorize labels %r / entries %r disagree with the filled categories %r" % (labels, ents, cats))
        else:
            for lab, e in zip(labels, ents):
                if e != cats.count(lab) or arr(c.bin_entries(labels=[lab]))[0] != e:
                    msgs.append("Categorize entry of %r is %r, filled %d times" % (lab, e, cats.count(lab)))
            if cats and cats.count(c.mpv) != max(cats.count(x) for x in set(cats)):
                msgs.append("Categorize mpv %r is not a most frequent category of %r" % (c.mpv, cats))


def make_py():
    return C13Exec()


execs.PY_ONLY_OPS.add("c13")


def _tolist(v):
    from fractions import Fraction

    out = []
    for x in v:
        out.append(float(x) if isinstance(x, Fraction) else x)
    return out


def post_model(py, model):
    for q in py.queries:
        if q[0] == "view":
            _, k, low, high, got = q
            lo = None if low is None else num_to_wire(low)
            hi = None if high is None else num_to_wire(high)
            for what in ("numbins", "edges", "centers", "entries"):
                if (k == "SparselyBin" and what == "centers") or (k == "CentrallyBin" and what in ("numbins", "edges")) \
                        or (k == "IrregularlyBin" and what != "entries"):
                    continue
                r = model.d.send(["$view", "$h", "$" + what, lo, hi])
                if isinstance(r, dict):
                    return {"what": "model driver: %r for %s %s" % (r, k, what)}
                want = got[what]
                mine = float(r) if what == "numbins" else _tolist(r)
                if mine != want:
                    return {"what": "%s.%s(%r, %r): model %r, implementation %r" % (k, what, low, high, mine, want)}
        else:
            _, k, x, got = q
            r = model.d.send(["$viewat", "$h", num_to_wire(x)])
            if isinstance(r, dict) or float(r) != got:
                return {"what": "%s.bin_entries(xvalues=[%r]): model %r, implementation %r" % (k, x, r, got)}
    return None


@common.pycheck("c13")
def _c13(py, replies):
    return py.msgs[0] if py.msgs else None


EDGE_CFG = [(10, 0.0, 1.0), (5, -1.0, 2.0), (7, 0.1, 0.8), (50, 0.0, 10.0), (30, 0.0, 7.0), (12, -0.3, 0.9), (9, 0.0, 0.9), (3, 0.0, 1.0)]


def point_lookup_check(p):
    """Implementation-level, on bin widths that are not exactly representable: the content reported for a point x
    (bin_entries(xvalues=[x])) is the content of the bin where fill put x — for x on and next to every edge (this is apart from
    known finding C13-bin-near-edge, which concerns sub-ranges low..high, not point lookups)."""
    import numpy as np

    hg = gen.hg
    n, lo, hi = EDGE_CFG[(len(p["xs"]) * 5 + len(p["queries"])) % len(EDGE_CFG)]
    xs = []
    for i in range(n + 1):
        for e in (lo + i * (hi - lo) / n, lo + i * ((hi - lo) / n), round(lo + i * (hi - lo) / n, 10)):
            xs += [float(e), float(np.nextafter(e, -np.inf)), float(np.nextafter(e, np.inf))]
    try:
        for x in xs:
            h = hg.Bin(n, lo, hi, lambda d: d)
            h.fill(x, 2.0)
            want = 2.0 if lo <= x < hi else 0.0
            got = [float(v) for v in h.bin_entries(xvalues=[x])]
            if got != [want]:
                where = [i for i, v in enumerate(h.values) if v.entries]
                return ["Bin(%d, %r, %r): fill(%r) went to bin %r, but bin_entries(xvalues=[%r]) reports %r instead of %r"
                        % (n, lo, hi, x, where, x, got, [want])]
        h = hg.Bin(n, lo, hi, lambda d: d)
        for x in xs:
            h.fill(x)
        got = [float(v) for v in h.bin_entries(xvalues=xs)]
        want = [float(h.values[h.bin(x)].entries) if h.bin(x) >= 0 else 0.0 for x in xs]
        if got != want:
            i = [k for k in range(len(xs)) if got[k] != want[k]][0]
            return ["Bin(%d, %r, %r) filled on and next to its edges: bin_entries(xvalues=...) reports %r for x=%r, whose bin holds %r"
                    % (n, lo, hi, got[i], xs[i], want[i])]
    except Exception as e:  # noqa: BLE001
        return ["Bin(%d, %r, %r) point lookups next to edges: %s: %s" % (n, lo, hi, type(e).__name__, str(e)[:200])]
    return []


def oracle(case, py, replies):
    from runner import dec

    return common.eval_expect(case, py, replies) + point_lookup_check(dec(case["params"]))


def stats(case, py, replies):
    return {"nontrivial": 1 if case["params"]["xs"] else 0, "kind_" + case["params"]["spec"]["k"]: 1,
            "queries": len(case["params"]["queries"])}
