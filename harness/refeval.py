"""Independent exact-rational reference evaluator of an aggregator tree (C02 oracle).

Written from the Histogrammar *specification* as the property states it — the value of every node
is a function of the multiset of (datum, weight) pairs with weight > 0 routed to it — not from the
library's code and not from the Lean model.  It produces a document in the shape of toJson()
(canonical form of execs.canon_doc) so that it can be compared field by field.
"""
import math
from fractions import Fraction

NAN = float("nan")


def F(x):
    if isinstance(x, bool):
        return Fraction(int(x))
    if isinstance(x, float) and (math.isnan(x) or math.isinf(x)):
        return x
    return Fraction(x)


def isnan(x):
    return isinstance(x, float) and math.isnan(x)


def isinf(x):
    return isinstance(x, float) and math.isinf(x)


def tojson_num(x):
    if isnan(x):
        return "nan"
    if isinf(x):
        return "inf" if x > 0 else "-inf"
    return Fraction(x)


def qval(q, d):
    return d[q[0]]


def numeric(v):
    """value of a numeric quantity: bool counts as 0/1"""
    if isinstance(v, bool):
        return Fraction(int(v))
    return F(v)


def typename(spec):
    return spec["k"]


def qname(spec):
    q = spec.get("q")
    return q[1] if q else None


def with_name(doc, spec, suppress):
    if not suppress and qname(spec) is not None:
        doc["name"] = qname(spec)
    return doc


def ev(spec, rows, suppress=False):
    """rows: list of (datum, weight) with weight > 0 that were routed to this node"""
    k = spec["k"]
    W = sum((F(w) for _, w in rows), Fraction(0))
    if k == "Count":
        return tojson_num(W)
    if k in ("Sum", "Average", "Deviate", "Minimize", "Maximize"):
        xs = [(numeric(qval(spec["q"], d)), F(w)) for d, w in rows]
        doc = {"entries": W}
        anynan = any(isnan(x) for x, _ in xs)
        pinf = any(isinf(x) and x > 0 for x, _ in xs)
        ninf = any(isinf(x) and x < 0 for x, _ in xs)
        fin = [(x, w) for x, w in xs if not isnan(x) and not isinf(x)]
        if k == "Sum":
            if anynan or (pinf and ninf):
                s = NAN
            elif pinf:
                s = float("inf")
            elif ninf:
                s = float("-inf")
            else:
                s = sum((x * w for x, w in fin), Fraction(0))
            doc["sum"] = tojson_num(s)
        elif k in ("Average", "Deviate"):
            if W == 0 or anynan or (pinf and ninf):
                mean = NAN
            elif pinf:
                mean = float("inf")
            elif ninf:
                mean = float("-inf")
            else:
                mean = sum((x * w for x, w in fin), Fraction(0)) / W
            doc["mean"] = tojson_num(mean)
            if k == "Deviate":
                if W == 0 or anynan or pinf or ninf:
                    var = NAN
                else:
                    var = sum((w * (x - mean) ** 2 for x, w in fin), Fraction(0)) / W
                doc["variance"] = tojson_num(var)
        else:
            cand = [x for x, _ in xs if not isnan(x)]
            if not cand:
                m = NAN
            else:
                m = min(cand) if k == "Minimize" else max(cand)
            doc["min" if k == "Minimize" else "max"] = tojson_num(m)
        return with_name(doc, spec, suppress)
    if k == "Bag":
        acc = {}
        for d, w in rows:
            v = qval(spec["q"], d)
            if spec["range"] == "S":
                key = ("s", v)
                jv = v
            elif spec["range"] == "N":
                x = numeric(v)
                key = ("n", "nan" if isnan(x) else x)
                jv = tojson_num(x)
            else:
                xs = [numeric(c) for c in v]
                key = ("v", tuple("nan" if isnan(x) else x for x in xs))
                jv = [tojson_num(x) for x in xs]
            if key not in acc:
                acc[key] = [jv, Fraction(0)]
            acc[key][1] += F(w)
        doc = {"entries": W, "values": [{"w": n, "v": jv} for jv, n in acc.values()], "range": spec["range"]}
        return with_name(doc, spec, suppress)

    def sub_name(s):
        return qname(s)

    if k == "Bin":
        n, low, high = spec["n"], F(spec["low"]), F(spec["high"])
        bins = [[] for _ in range(n)]
        under, over, nanf = [], [], []
        for d, w in rows:
            x = numeric(qval(spec["q"], d))
            if isnan(x):
                nanf.append((d, w))
            elif x < low:
                under.append((d, w))
            elif x >= high:
                over.append((d, w))
            else:
                # the half-open interval [low + i*width, low + (i+1)*width) containing x
                i = int((x - low) * n // (high - low))
                bins[i].append((d, w))
        doc = {"low": low, "high": high, "entries": W, "values:type": typename(spec["value"]),
               "values": [ev(spec["value"], b, True) for b in bins],
               "underflow:type": typename(spec["underflow"]), "underflow": ev(spec["underflow"], under),
               "overflow:type": typename(spec["overflow"]), "overflow": ev(spec["overflow"], over),
               "nanflow:type": typename(spec["nanflow"]), "nanflow": ev(spec["nanflow"], nanf)}
        if sub_name(spec["value"]) is not None:
            doc["values:name"] = sub_name(spec["value"])
        return with_name(doc, spec, suppress)
    if k == "SparselyBin":
        width, origin = F(spec["width"]), F(spec["origin"])
        bins, nanf = {}, []
        for d, w in rows:
            x = numeric(qval(spec["q"], d))
            if isnan(x):
                nanf.append((d, w))
            elif isinf(x):
                bins.setdefault(9223372036854775807 if x > 0 else -9223372036854775807, []).append((d, w))
            else:
                bins.setdefault(int((x - origin) // width), []).append((d, w))
        doc = {"binWidth": width, "entries": W, "bins:type": typename(spec["value"]),
               "bins": {str(i): ev(spec["value"], b, True) for i, b in bins.items()},
               "nanflow:type": typename(spec["nanflow"]), "nanflow": ev(spec["nanflow"], nanf), "origin": origin}
        if sub_name(spec["value"]) is not None:
            doc["bins:name"] = sub_name(spec["value"])
        return with_name(doc, spec, suppress)
    if k == "CentrallyBin":
        cs = [F(c) for c in spec["centers"]]
        bins = [[] for _ in cs]
        nanf = []
        for d, w in rows:
            x = numeric(qval(spec["q"], d))
            if isnan(x):
                nanf.append((d, w))
                continue
            # nearest centre; a value exactly on a midpoint belongs to the upper bin
            idx = len(cs) - 1
            for i in range(len(cs) - 1):
                if x < (cs[i] + cs[i + 1]) / 2:
                    idx = i
                    break
            bins[idx].append((d, w))
        doc = {"entries": W, "bins:type": typename(spec["value"]),
               "bins": [{"center": c, "data": ev(spec["value"], b, True)} for c, b in zip(cs, bins)],
               "nanflow:type": typename(spec["nanflow"]), "nanflow": ev(spec["nanflow"], nanf)}
        if sub_name(spec["value"]) is not None:
            doc["bins:name"] = sub_name(spec["value"])
        return with_name(doc, spec, suppress)
    if k in ("IrregularlyBin", "Stack"):
        ts = [float("-inf")] + [F(e) for e in spec["edges"]]
        bins = [[] for _ in ts]
        nanf = []
        for d, w in rows:
            x = numeric(qval(spec["q"], d))
            if isnan(x):
                nanf.append((d, w))
                continue
            if k == "Stack":
                for i, t in enumerate(ts):
                    if x >= t:
                        bins[i].append((d, w))
            else:
                idx = max(i for i, t in enumerate(ts) if x >= t)
                bins[idx].append((d, w))
        doc = {"entries": W, "bins:type": typename(spec["value"]),
               "bins": [{"atleast": tojson_num(t), "data": ev(spec["value"], b, True)} for t, b in zip(ts, bins)],
               "nanflow:type": typename(spec["nanflow"]), "nanflow": ev(spec["nanflow"], nanf)}
        if sub_name(spec["value"]) is not None:
            doc["bins:name"] = sub_name(spec["value"])
        return with_name(doc, spec, suppress)
    if k in ("Fraction", "Select"):
        passing = []
        for d, w in rows:
            x = numeric(qval(spec["q"], d))
            if isnan(x):
                continue
            ww = x * F(w)
            if ww > 0:
                passing.append((d, ww))
        if k == "Fraction":
            doc = {"entries": W, "sub:type": typename(spec["value"]), "numerator": ev(spec["value"], passing, True),
                   "denominator": ev(spec["value"], rows, True)}
            if sub_name(spec["value"]) is not None:
                doc["sub:name"] = sub_name(spec["value"])
        else:
            doc = {"entries": W, "sub:type": typename(spec["cut"]), "data": ev(spec["cut"], passing)}
        return with_name(doc, spec, suppress)
    if k == "Categorize":
        bins = {}
        for d, w in rows:
            v = qval(spec["q"], d)
            if v is None or isnan(v):
                v = "NaN"
            bins.setdefault(str(v), []).append((d, w))
        doc = {"entries": W, "bins:type": typename(spec["value"]),
               "bins": {c: ev(spec["value"], b, True) for c, b in bins.items()}}
        if sub_name(spec["value"]) is not None:
            doc["bins:name"] = sub_name(spec["value"])
        return with_name(doc, spec, suppress)
    if k == "Label":
        first = next(iter(spec["pairs"].values()))
        return {"entries": W, "sub:type": typename(first), "data": {n: ev(s, rows) for n, s in spec["pairs"].items()}}
    if k == "UntypedLabel":
        return {"entries": W, "data": {n: {"type": typename(s), "data": ev(s, rows)} for n, s in spec["pairs"].items()}}
    if k == "Index":
        return {"entries": W, "sub:type": typename(spec["values"][0]), "data": [ev(s, rows) for s in spec["values"]]}
    if k == "Branch":
        return {"entries": W, "data": [{"type": typename(s), "data": ev(s, rows)} for s in spec["values"]]}
    raise ValueError(k)


def reference_doc(spec, stream):
    rows = [(d, w) for d, w in stream if isinstance(w, (int, float)) and not isnan(w) and w > 0]
    return {"type": spec["k"], "data": ev(spec, rows), "version": "1.1"}
