"""Executors of protocol operations: the real library in-process, and the Lean model behind the
line protocol; plus canonicalisation and comparison of their replies (DESIGN §4.1/§4.2).

An operation is a tuple:
  ("new", h, spec)            ("fill", h, datum, w)         ("fills", h, [(datum, w), ...])
  ("add", hn, h1, h2)         ("iadd", h1, h2)              ("mul", hn, h, f)   ("rmul", hn, f, h)
  ("zero", hn, h)             ("copy", hn, h)               ("json", h)
  ("load", hn, doc)           ("eq", h1, h2, rel, tol)      ("drop", h)
"""
import copy as _copy
import math
from fractions import Fraction

import gen
from gen import hg
from histogrammar.defs import ContainerException, Factory
import histogrammar.util as hgutil
from wire import Boom, Driver, cell_to_wire, doc_to_wire, num_to_wire

TOL_KEYS = {"mean", "variance"}
REL_TOL = 1e-9


def canon_doc(j):
    """Python toJson() output -> comparable value: floats/bools/ints -> Fraction (nan/inf stay float)."""
    if j is None:
        return None
    if isinstance(j, bool):
        return Fraction(int(j))
    if isinstance(j, int):
        return Fraction(j)
    if isinstance(j, Fraction):
        return j
    if isinstance(j, float):
        if math.isnan(j) or math.isinf(j):
            return j
        return Fraction(j)
    if isinstance(j, str):
        return str(j)
    if isinstance(j, (list, tuple)):
        return [canon_doc(x) for x in j]
    if isinstance(j, dict):
        return {str(k): canon_doc(v) for k, v in j.items()}
    try:
        import numpy as np

        if isinstance(j, np.bool_):
            return Fraction(int(j))
        if isinstance(j, np.integer):
            return Fraction(int(j))
        if isinstance(j, np.floating):
            return canon_doc(float(j))
    except ImportError:
        pass
    raise TypeError("unexpected value in a document: %r" % (j,))


def _numeq(a, b, tol):
    fa, fb = isinstance(a, float), isinstance(b, float)
    if fa or fb:
        # nan / inf
        if fa and fb:
            return (math.isnan(a) and math.isnan(b)) or a == b
        return False
    if a == b:
        return True
    if not tol:
        return False
    return abs(a - b) <= REL_TOL * max(1, abs(a), abs(b))


def _bagkey(x):
    v = x.get("v") if isinstance(x, dict) else x
    return repr(v)


def diff_doc(a, b, path="", tol=False, mode="tol"):
    """First difference between two canonical documents, or None.
    mode "tol": means/variances to 1e-9 (default); "strict": every number exactly; "shape": numbers ignored."""
    if mode == "shape":
        numlike = lambda x: isinstance(x, (Fraction, float)) or (isinstance(x, str) and x in ("nan", "inf", "-inf"))  # noqa: E731
        if numlike(a) and numlike(b):
            return None
    if isinstance(a, (Fraction, float)) and isinstance(b, (Fraction, float)):
        return None if _numeq(a, b, tol and mode == "tol") else "%s: %r != %r" % (path, a, b)
    if type(a) is not type(b):
        return "%s: %r vs %r" % (path, a, b)
    if isinstance(a, dict):
        if set(a) != set(b):
            return "%s: keys %s vs %s" % (path, sorted(a), sorted(b))
        for k in sorted(a):
            d = diff_doc(a[k], b[k], path + "/" + k, tol or (k in TOL_KEYS), mode)
            if d:
                return d
        return None
    if isinstance(a, list):
        if len(a) != len(b):
            return "%s: length %d vs %d" % (path, len(a), len(b))
        if path.endswith("/values") and a and isinstance(a[0], dict) and "v" in a[0] and "w" in a[0]:
            a = sorted(a, key=_bagkey)
            b = sorted(b, key=_bagkey)
        for i, (x, y) in enumerate(zip(a, b)):
            d = diff_doc(x, y, "%s[%d]" % (path, i), tol, mode)
            if d:
                return d
        return None
    return None if a == b else "%s: %r != %r" % (path, a, b)


def _bad_name(o, depth=0):
    """every quantity name of a loaded aggregator is a string or None"""
    if depth > 12:
        return None
    q = getattr(o, "quantity", None)
    nm = getattr(q, "name", None)
    if nm is not None and not isinstance(nm, str):
        return (getattr(o, "name", type(o).__name__), nm)
    for c in getattr(o, "children", []) or []:
        if c is None:
            continue
        r = _bad_name(c, depth + 1)
        if r is not None:
            return r
    return None


def _unknown_type(o, depth=0):
    """every primitive named by a loaded aggregator (its own type, the declared type of the bins of an empty sparse
    container) is a registered one"""
    from histogrammar.defs import Factory

    if depth > 12:
        return None
    nm = getattr(o, "name", None)
    if not isinstance(nm, str) or nm not in Factory.registered:
        return nm
    ct = o.__dict__.get("contentType")
    if ct is not None and ct not in Factory.registered:
        return ct
    for c in getattr(o, "children", []) or []:
        if c is None:
            continue
        r = _unknown_type(c, depth + 1)
        if r is not None:
            return r
    return None


def _negative_entries(obj, depth=0):
    try:
        if obj.entries < 0:
            return (obj.entries, type(obj).__name__)
    except Exception:  # noqa: BLE001
        return None
    if depth > 12:
        return None
    for c in obj.children:
        if c is not None and c is not obj.__dict__.get("value"):
            r = _negative_entries(c, depth + 1)
            if r is not None:
                return r
    return None


def normalise_doc(d, top=True):
    """what C15 compares: optional name keys holding null are the same as absent; the version string
    of the header is not content"""
    if isinstance(d, dict):
        out = {}
        for k, v in d.items():
            if v is None and (k == "name" or k.endswith(":name")):
                continue
            if top and k == "version":
                continue
            out[k] = normalise_doc(v, False)
        return out
    if isinstance(d, list):
        return [normalise_doc(x, False) for x in d]
    return d


def np_columns(data_rows, numtype="f8"):
    """rows of cells -> a numpy record array with one field per column (c0..c7), the input form
    fill.numpy supports for every primitive (sliced with boolean masks by the sparse containers).
    `numtype`: dtype of the numeric columns ("f8", "f4", or "i8" for integral data)"""
    import numpy as np

    n = len(data_rows)
    dt = []
    for c in range(gen.NCOLS):
        if c in gen.NUM_COLS:
            dt.append(("c%d" % c, numtype))
        elif c == gen.BOOL_COL:
            dt.append(("c%d" % c, "?"))
        elif c == gen.VEC_COL:
            dt.append(("c%d" % c, "f8", (2,)))
        else:
            dt.append(("c%d" % c, "U8"))
    arr = np.zeros(n, dtype=dt)
    for i, r in enumerate(data_rows):
        for c in range(gen.NCOLS):
            v = r[c]
            if c in gen.NUM_COLS:
                arr["c%d" % c][i] = float(v)
            elif c == gen.BOOL_COL:
                arr["c%d" % c][i] = bool(v)
            elif c == gen.VEC_COL:
                arr["c%d" % c][i] = [float(x) for x in v]
            else:
                arr["c%d" % c][i] = "NaN" if v is None else str(v)
    return arr.view(np.recarray)


def prune_doc(d):
    """drop sparse bins / categories / bag keys that hold zero weight (C03: 'up to ... zero weight')"""
    if isinstance(d, dict):
        out = {}
        for k, v in d.items():
            if k == "bins" and isinstance(v, dict) and "bins:type" in d:
                # (the bins of a SparselyBin / Categorize — not a collection member that happens to be called "bins")
                out[k] = {bk: prune_doc(bv) for bk, bv in v.items() if not _is_empty(bv)}
            elif k == "values" and "range" in d and isinstance(v, list) and v and isinstance(v[0], dict) and "w" in v[0]:
                out[k] = [prune_doc(x) for x in v if x["w"] != 0]
            else:
                out[k] = prune_doc(v)
        return out
    if isinstance(d, list):
        return [prune_doc(x) for x in d]
    return d


def _is_empty(frag):
    if isinstance(frag, dict):
        return frag.get("entries") == 0
    return frag == 0


def mutable_ids(obj, skip_templates=True):
    """ids of every mutable object reachable from an aggregator: the containers themselves and their
    dict/list state; sub-aggregator templates (never filled) are not followed"""
    import histogrammar as _hg

    seen = {}

    def walk(o):
        if id(o) in seen:
            return
        if isinstance(o, _hg.defs.Container):
            seen[id(o)] = o
            for name, v in o.__dict__.items():
                if name in ("fill", "plot", "quantity", "transform", "_checkedForCrossReferences"):
                    continue
                if skip_templates and name == "value" and isinstance(o, (_hg.SparselyBin, _hg.Categorize, _hg.CentrallyBin)):
                    continue
                walk(v)
        elif isinstance(o, dict):
            seen[id(o)] = o
            for v in o.values():
                walk(v)
        elif isinstance(o, (list, tuple)):
            if isinstance(o, list):
                seen[id(o)] = o
            for v in o:
                walk(v)

    walk(obj)
    return seen


def selfcheck(o, path="", depth=0):
    """redundant public views of one aggregator agree with each other: the positional accessors i0..i9 of a Branch are its
    members, keyed access of Label/UntypedLabel/Index returns the listed members, `children` lists the sub-aggregators"""
    import histogrammar as _hg

    if depth > 12:
        return None
    t = getattr(o, "name", None)
    try:
        if t == "Branch":
            for i, v in enumerate(o.values[:10]):
                if getattr(o, "i%d" % i, None) is not v:
                    return "%s/Branch: accessor i%d is not values[%d] (entries %r vs %r)" % (path, i, i, getattr(getattr(o, "i%d" % i, None), "entries", None), v.entries)
        elif t in ("Label", "UntypedLabel"):
            for k in o.keys:
                if o(k) is not o.pairs[k]:
                    return "%s/%s: keyed access %r does not return the member" % (path, t, k)
        elif t == "Index":
            for i, v in enumerate(o.values):
                if o(i) is not v:
                    return "%s/Index: positional access %d does not return the member" % (path, i)
        elif t == "Fraction":
            if o.numerator not in o.children or o.denominator not in o.children:
                return "%s/Fraction: children does not list numerator/denominator" % path
    except Exception as e:  # noqa: BLE001
        return "%s/%s: accessor raised %s: %s" % (path, t, type(e).__name__, e)
    tmpl = o.__dict__.get("value") if isinstance(o, (_hg.SparselyBin, _hg.Categorize, _hg.CentrallyBin)) else None
    for i, c in enumerate(getattr(o, "children", []) or []):
        if c is None or c is tmpl:
            continue
        m = selfcheck(c, "%s/%s[%d]" % (path, t, i), depth + 1)
        if m:
            return m
    return None


def classify(e):
    if isinstance(e, Boom):
        return "raise:user"
    if isinstance(e, ContainerException):
        return "raise:container"
    if isinstance(e, (TypeError, AttributeError)):
        return "raise:type"
    return "raise:other:" + type(e).__name__


class PyExec:
    """The implementation under test."""

    def __init__(self):
        self.pool = {}
        self.snaps = {}
        self.same_object = {}
        self.last_fill_raised = False
        self.np_filled = set()

    def state(self, h):
        return canon_doc(self.pool[h].toJson())

    def apply(self, op):
        r = self._apply(op)
        if r == "ok" and op[0] in ("new", "add", "mul", "rmul", "zero", "copy", "load", "pickle", "iadd") and op[1] in self.pool:
            msg = selfcheck(self.pool[op[1]])
            if msg:
                return "violation: after %s: %s" % (op[0], msg)
        return r

    def _apply(self, op):
        k = op[0]
        P = self.pool
        if k == "new":
            P[op[1]] = gen.build(op[2])
            return "ok"
        if k == "fill":
            try:
                P[op[1]].fill(op[2], op[3])
                self.last_fill_raised = False
                return "ok"
            except Exception as e:  # noqa: BLE001
                self.last_fill_raised = True
                return classify(e)
        if k == "fills":
            out = []
            h = P[op[1]]
            for d, w in op[2]:
                try:
                    h.fill(d, w)
                    out.append("ok")
                except Exception as e:  # noqa: BLE001
                    out.append(classify(e))
            return out
        if k == "fillsnp":
            # op: ("fillsnp", h, rows, mode) — one vectorised fill of the whole batch;
            # mode: "unit" (default weight), ("scalar", w), or "array" (the rows' weights)
            import numpy as np

            rows, mode = op[2], op[3]
            data = np_columns([r[0] for r in rows], op[4] if len(op) > 4 else "f8")
            before = data.tobytes()
            try:
                if mode == "unit":
                    P[op[1]].fill.numpy(data)
                elif isinstance(mode, (list, tuple)) and mode[0] == "scalar":
                    P[op[1]].fill.numpy(data, mode[1])
                else:
                    w = np.array([float(r[1]) for r in rows], dtype=np.float64)
                    w0 = w.copy()
                    P[op[1]].fill.numpy(data, w)
                    if not np.array_equal(w, w0, equal_nan=True):
                        return "violation: fill.numpy modified the weight array it was given"
                self.np_filled.add(op[1])
            except Exception as e:  # noqa: BLE001
                self.np_filled.add(op[1])
                return classify(e)
            if data.tobytes() != before:
                return "violation: fill.numpy modified an input array"
            return "ok"
        if k == "ctors":
            # ("ctors", kind, route, xs): constructor independence through one construction route (py-only)
            import ctors

            msg = ctors.check(op[1], op[2], op[3])
            return ("violation: " + msg) if msg else "ok"
        if k == "pickle":
            import pickle

            P[op[1]] = pickle.loads(pickle.dumps(P[op[2]]))
            return "ok"
        if k == "denote":
            # ("denote", dst, empty, stream, filled): the model evaluates the closed-form specification of the
            # stream on the empty tree; on the implementation side the state to compare with is the filled tree
            P[op[1]] = P[op[4]]
            return "ok"
        if k == "add":
            try:
                P[op[1]] = P[op[2]] + P[op[3]]
                return "ok"
            except Exception:  # noqa: BLE001
                return "raise:container"
        if k in ("iadd", "iadd_pyonly"):
            try:
                a = P[op[1]]
                before = id(a)
                a += P[op[2]]
                P[op[1]] = a
                self.same_object[op[1]] = (id(a) == before)
                return "ok"
            except Exception:  # noqa: BLE001
                return "raise:container"
        if k == "hash":
            try:
                hash(P[op[1]])
                repr(P[op[1]])
                return "ok"
            except Exception as e:  # noqa: BLE001
                return "raise:" + type(e).__name__
        if k == "mul":
            P[op[1]] = P[op[2]] * op[3]
            return "ok"
        if k == "rmul":
            P[op[1]] = op[2] * P[op[3]]
            return "ok"
        if k == "zero":
            P[op[1]] = P[op[2]].zero()
            return "ok"
        if k == "copy":
            try:
                P[op[1]] = P[op[2]].copy()
                return "ok"
            except Exception:  # noqa: BLE001
                return "raise:container"
        if k == "json":
            return self.state(op[1])
        if k == "load":
            try:
                P[op[1]] = Factory.fromJson(_copy.deepcopy(op[2]))
                return "ok"
            except Exception:  # noqa: BLE001
                return "raise:json"
        if k == "eq":
            old = (hgutil.relativeTolerance, hgutil.absoluteTolerance)
            hgutil.relativeTolerance, hgutil.absoluteTolerance = float(op[3]), float(op[4])
            try:
                r = P[op[1]] == P[op[2]]
                n = P[op[1]] != P[op[2]]
                if bool(r) == bool(n):
                    return "violation: != is not the negation of == (%r, %r)" % (r, n)
                return bool(r)
            except Exception as e:  # noqa: BLE001
                return "raise:" + type(e).__name__
            finally:
                hgutil.relativeTolerance, hgutil.absoluteTolerance = old
        if k == "drop":
            P.pop(op[1], None)
            return "ok"
        if k == "snap":
            self.snaps[op[1]] = self.state(op[2])
            return "ok"
        if k == "checksnap":
            # the state of op[2] must equal the snapshot op[1] *now*
            d = diff_doc(self.snaps[op[1]], self.state(op[2]))
            return ("violation: %s: %s changed since snapshot %s: %s" % (op[3], op[2], op[1], d)) if d else "ok"
        if k == "checksnap_if_raised":
            if not self.last_fill_raised:
                return "ok"
            d = diff_doc(self.snaps[op[1]], self.state(op[2]))
            return ("violation: %s: %s" % (op[3], d)) if d else "ok"
        if k == "check_faithful":
            # an accepted document must be exactly the serialisation of what was loaded
            if op[1] not in P:
                return "ok"
            try:
                got = normalise_doc(self.state(op[1]))
            except Exception as e:  # noqa: BLE001
                return "violation: accepted a document (%s) that yields a container whose toJson raises %s" % (op[3], type(e).__name__)
            neg = _negative_entries(P[op[1]])
            if neg is not None:
                return "violation: accepted a document (%s) with negative entries %r in a %s" % (op[3], neg[0], neg[1])
            # every primitive named anywhere in an accepted document is a registered one
            bogus = _unknown_type(P[op[1]])
            if bogus is not None:
                return "violation: accepted a document (%s) that names an unknown primitive %r" % (op[3], bogus)
            badname = _bad_name(P[op[1]])
            if badname is not None:
                return "violation: accepted a document (%s) and loaded a %s whose quantity name is %r, neither a string nor None" % (op[3], badname[0], badname[1])
            want = normalise_doc(canon_doc(op[2]))
            d = diff_doc(got, want, mode="strict")
            return ("violation: accepted a document that is not a valid serialisation (%s): %s" % (op[3], d)) if d else "ok"
        if k == "noshare":
            a, b = mutable_ids(P[op[1]]), mutable_ids(P[op[2]])
            common = [type(a[i]).__name__ for i in a if i in b]
            return ("violation: %s: %s and %s share mutable state (%s)" % (op[3], op[1], op[2], ", ".join(common[:3]))) if common else "ok"
        if k == "derived":
            # ("derived", h, rows): the derived aggregators a container offers as methods (histogram(), toImmutable()) are new
            # objects: they share no mutable state with their source, and filling / merging into them leaves the source alone
            src = P[op[1]]
            before = json_dumps_state(src)
            for meth in ("histogram", "toImmutable"):
                if getattr(type(src), meth, None) is None:   # (class-level: Select forwards unknown attributes to its cut)
                    continue
                try:
                    g = getattr(src, meth)()
                except Exception:  # noqa: BLE001
                    continue   # (CentrallyBin.histogram() raises TypeError on the unchanged tree: no object, nothing shared)
                a, b = mutable_ids(src), mutable_ids(g)
                common = [type(a[i]).__name__ for i in a if i in b]
                if common:
                    return "violation: %s.%s() shares mutable state with its source (%s)" % (src.name, meth, ", ".join(common[:3]))
                for d, w in op[2]:
                    try:
                        g.fill(d, w)
                    except Exception:  # noqa: BLE001 - the immutable form cannot be filled
                        break
                try:
                    g += g.copy()
                except Exception:  # noqa: BLE001
                    pass
                if json_dumps_state(src) != before:
                    return "violation: filling / merging into the result of %s.%s() changed the source" % (src.name, meth)
            return "ok"
        if k == "checkeq":
            d = diff_doc(self.state(op[1]), self.state(op[2]))
            return ("violation: %s: %s and %s differ: %s" % (op[3], op[1], op[2], d)) if d else "ok"
        raise ValueError(op)


def json_dumps_state(obj):
    import json as _json

    return _json.dumps(obj.toJson(), sort_keys=True, default=str)


def op_to_wire(op):
    k = op[0]
    if k == "new":
        return ["$new", "$" + op[1], doc_to_wire(gen.effective_spec(op[2]))]
    if k == "fill":
        return ["$fill", "$" + op[1], [cell_to_wire(c) for c in op[2]], num_to_wire(op[3])]
    if k == "fills":
        return ["$fills", "$" + op[1], [[[cell_to_wire(c) for c in d], num_to_wire(w)] for d, w in op[2]]]
    if k == "fillsnp":
        mode = op[3]
        rows = []
        for d, w in op[2]:
            ww = 1.0 if mode == "unit" else (mode[1] if isinstance(mode, (list, tuple)) else w)
            d = list(d)
            if d[gen.STR_COL] is None:
                d[gen.STR_COL] = "NaN"
            rows.append([[cell_to_wire(c) for c in d], num_to_wire(ww)])
        return ["$fillnp", "$" + op[1], rows]
    if k == "denote":
        return ["$denote", "$" + op[1], "$" + op[2], [[[cell_to_wire(c) for c in d], num_to_wire(w)] for d, w in op[3]]]
    if k == "add":
        return ["$add", "$" + op[1], "$" + op[2], "$" + op[3]]
    if k == "iadd":
        return ["$iadd", "$" + op[1], "$" + op[2]]
    if k == "mul":
        return ["$mul", "$" + op[1], "$" + op[2], num_to_wire(op[3])]
    if k == "rmul":
        return ["$mul", "$" + op[1], "$" + op[3], num_to_wire(op[2])]
    if k in ("zero", "copy"):
        return ["$" + k, "$" + op[1], "$" + op[2]]
    if k == "json":
        return ["$json", "$" + op[1]]
    if k == "load":
        return ["$load", "$" + op[1], doc_to_wire(op[2])]
    if k == "eq":
        return ["$eq", "$" + op[1], "$" + op[2], num_to_wire(op[3]), num_to_wire(op[4])]
    if k == "drop":
        return ["$drop", "$" + op[1]]
    if k == "nphyp":
        return ["$nphyp", "$" + op[1], [[[cell_to_wire(c) for c in d], num_to_wire(w)] for d, w in op[2]]]
    if k == "goodrun":
        return ["$goodrun", "$" + op[1], [[[cell_to_wire(c) for c in d], num_to_wire(w)] for d, w in op[2]]]
    if k == "pickle":
        return ["$dup", "$" + op[1], "$" + op[2]]
    if k in ("immut", "prune"):
        return ["$" + k, "$" + op[1], "$" + op[2]]
    if k in ("good", "iszero", "uniform", "uniformt", "liveok", "inv", "singlepath", "hastmpl", "nobins", "knownctype"):
        return ["$" + k, "$" + op[1]]
    if k in ("samebase", "same", "compat", "eqcontent"):
        return ["$" + k, "$" + op[1], "$" + op[2]]
    raise ValueError(op)


class ModelExec:
    """The Lean model."""

    def __init__(self):
        self.d = Driver()

    def apply(self, op):
        r = self.d.send(op_to_wire(op))
        if isinstance(r, dict) and "error" in r and len(r) == 1:
            raise RuntimeError("model driver protocol error %r on %r" % (r, op[:2]))
        return r

    def state(self, h):
        return self.apply(("json", h))

    def close(self):
        self.d.close()


def _coarse(r):
    """which exception class is raised is not part of any property: a reply is 'ok', 'raise', or data"""
    if isinstance(r, str) and r.startswith("raise"):
        return "raise"
    if isinstance(r, list):
        return [_coarse(x) for x in r]
    return r


def same_reply(op, rp, rm):
    """None if the two replies agree, else a description."""
    rp, rm = _coarse(rp), _coarse(rm)
    if op[0] == "json":
        return diff_doc(rp, rm)
    if op[0] == "fillsnp":
        if rp == rm:
            return None
        if isinstance(rp, str) and rp.startswith("violation"):
            return None   # reported by the oracle
        return "fillsnp: impl %r vs model %r" % (rp, rm)
    if op[0] == "fills":
        if len(rp) != len(rm):
            return "fills: %r vs %r" % (rp, rm)
        for i, (a, b) in enumerate(zip(rp, rm)):
            if a != b:
                return "fills[%d]: impl %r vs model %r" % (i, a, b)
        return None
    return None if rp == rm else "impl %r vs model %r" % (rp, rm)


def expand(op, py):
    """'roundtrip' is load of the implementation's own toJson output"""
    if op[0] == "roundtrip":
        return ("load", op[1], py.pool[op[2]].toJson())
    return op


PY_ONLY_OPS = {"ctors", "derived", "noshare", "check_faithful", "snap", "checksnap", "checksnap_if_raised", "checkeq", "hash", "iadd_pyonly"}


def run_history(ops, model, check_states=True, py=None, replies=None, model_ops=None, expander=None):
    """Run `ops` on a fresh implementation pool and on `model` (reset first).
    Returns (divergence | None, py_exec).  After every mutating op the serialised state of every
    live handle is compared (so interference with an untouched handle shows up as well).
    `replies` (a list) receives the implementation's reply to every op."""
    py = py or PyExec()
    model.d.send(["$reset"])
    live = []
    first = None
    queue = list(ops)
    i = -1
    while queue:
        op = queue.pop(0)
        if expander is not None and op[0] == "mutations":
            queue = list(expander(op, py)) + queue
            continue
        i += 1
        if op[0] == "mcheck":
            # model-only: an executable hypothesis of the property theorems, evaluated on the model's
            # copy of a state the real run reached
            if first is None:
                rm = model.apply(tuple(op[1]))
                if rm != op[2]:
                    first = {"index": i, "op": _brief(op), "what": "hypothesis %s of the theorems is %r on a reachable state (expected %r)" % (op[1][0], rm, op[2])}
            if replies is not None:
                replies.append("ok")
            continue
        try:
            op = expand(op, py)
        except KeyError:
            # the handle this operation reads was never created (the operation that should have made it raised): the
            # failure is reported where it happened; this one is skipped on both sides
            if replies is not None:
                replies.append("raise:missing-handle")
            continue
        try:
            rp = py.apply(op)
        except Exception as e:  # noqa: BLE001
            rp = "crash:" + type(e).__name__ + ":" + str(e)[:200]
        if replies is not None:
            replies.append(rp)
        if op[0] in PY_ONLY_OPS or first is not None:
            # after the first divergence the implementation keeps running (the oracle needs the
            # whole history); the model is no longer consulted
            continue
        rm = model.apply(op)
        d = same_reply(op, rp, rm)
        if d:
            first = {"index": i, "op": _brief(op), "what": d, "impl": _s(rp), "model": _s(rm)}
            continue
        k = op[0]
        if k in ("new", "add", "mul", "rmul", "zero", "copy", "load", "pickle", "denote") and rp == "ok":
            if k != "new" and any(x in py.np_filled for x in op[2:] if isinstance(x, str)):
                py.np_filled.add(op[1])
            if op[1] not in live:
                live.append(op[1])
        if check_states and k not in ("json", "eq", "drop") and not (isinstance(rp, str) and rp.startswith("raise") and k != "fill" and k != "iadd"):
            for h in live:
                if h not in py.pool:
                    continue
                try:
                    sp = py.state(h)
                except Exception as e:  # noqa: BLE001
                    first = {"index": i, "op": _brief(op), "what": "toJson of %s raised %s: %s" % (h, type(e).__name__, e)}
                    break
                sm = model.state(h)
                if py.np_filled:
                    sp, sm = prune_doc(sp), prune_doc(sm)
                d = diff_doc(sp, sm)
                if d:
                    first = {"index": i, "op": _brief(op), "what": "state of %s after op: %s" % (h, d)}
                    break
    return first, py


def _brief(op):
    s = repr(op)
    return s if len(s) < 400 else s[:400] + "..."


def _s(x):
    s = repr(x)
    return s if len(s) < 300 else s[:300] + "..."
