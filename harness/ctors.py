"""Constructor independence (C06): two aggregators built by separate constructor calls that rely on default
arguments never share mutable state — through every construction route of the public API: the class itself,
its `.ing` synonym, the convenience constructors (Histogram, Profile, ...) and the dataframe methods df.hg_X."""
import math

import numpy as np
import pandas as pd

import execs
from gen import hg


def qx(d):
    v = d["x"]
    return np.asarray(v) if hasattr(v, "__len__") and not isinstance(v, str) else v


def qy(d):
    v = d["y"]
    return np.asarray(v) if hasattr(v, "__len__") and not isinstance(v, str) else v


def qs(d):
    v = d["s"]
    return np.asarray(v) if hasattr(v, "__len__") and not isinstance(v, str) else v


def qb(d):
    v = d["x"]
    return (np.asarray(v) > 0) if hasattr(v, "__len__") else (v > 0)


# kind -> required positional arguments (everything with a default is left out)
REQUIRED = {
    "Count": lambda: (),
    "Sum": lambda: (qx,), "Average": lambda: (qx,), "Deviate": lambda: (qx,), "Minimize": lambda: (qx,), "Maximize": lambda: (qx,),
    "Bag": lambda: (qx, "N"),
    "Bin": lambda: (4, -2.0, 2.0, qx),
    "SparselyBin": lambda: (0.5, qx),
    "CentrallyBin": lambda: ([-1.0, 0.0, 2.0], qx),
    "IrregularlyBin": lambda: ([-1.0, 1.0], qx),
    "Stack": lambda: ([-1.0, 1.0], qx),
    "Fraction": lambda: (qb,),
    "Select": lambda: (qb,),
    "Categorize": lambda: (qs,),
    # convenience constructors
    "Histogram": lambda: (4, -2.0, 2.0, qx),
    "SparselyHistogram": lambda: (0.5, qx),
    "CategorizeHistogram": lambda: (qs,),
    "Profile": lambda: (4, -2.0, 2.0, qx, qy),
    "SparselyProfile": lambda: (0.5, qx, qy),
    "ProfileErr": lambda: (4, -2.0, 2.0, qx, qy),
    "SparselyProfileErr": lambda: (0.5, qx, qy),
    "TwoDimensionallyHistogram": lambda: (3, -2.0, 2.0, qx, 2, -2.0, 2.0, qy),
    "TwoDimensionallySparselyHistogram": lambda: (0.5, qx, 1.0, qy),
}
KINDS = sorted(REQUIRED)
ROUTES = ["direct", "ing", "df"]


def construct(kind, route, df=None):
    args = REQUIRED[kind]()
    if route == "direct":
        cls = getattr(hg, kind, None)
        return cls(*args) if cls is not None else None
    if route == "ing":
        cls = getattr(hg, kind, None)
        if cls is None or not hasattr(cls, "ing"):
            return None
        try:
            return cls.ing(*args)
        except TypeError:
            return None   # a synonym with a narrower signature (Bag.ing takes no range)
    m = getattr(df, "hg_" + kind, None)
    if m is None:
        return None
    return m(*args)


def frame(xs, shift=0.0):
    return pd.DataFrame({"x": [float(v) + shift for v in xs], "y": [float(v) * 0.5 - shift for v in xs],
                         "s": ["a" if (isinstance(v, float) and math.isnan(v)) or v < 0 else "b" for v in xs]})


def check(kind, route, xs):
    """returns None or a message"""
    if kind not in REQUIRED:
        return None
    xs = [float(v) for v in xs] or [0.5]
    if route != "df" and getattr(hg, kind, None) is None:
        route = "df"
    if route == "df" and kind == "Count":
        route = "direct"   # a bare Count has no vectorised fill, which the dataframe methods rely on
    if route == "df":
        df1, df2 = frame(xs), frame(list(reversed(xs)), shift=0.25)
        h1, h2 = construct(kind, route, df1), construct(kind, route, df2)
        if h1 is None or h2 is None:
            return None
        # the second result must be what a direct construction filled from the second frame alone gives
        ref = construct(kind, "direct")
        if ref is None:
            ref = construct(kind, "df", frame([]))   # no public class of that name: an empty frame gives the empty aggregator
        ref.fill.numpy(df2)
        d = execs.diff_doc(execs.canon_doc(h2.toJson()), execs.canon_doc(ref.toJson()))
        if d:
            return "df.hg_%s: the second aggregator built from default arguments is not the fill of its own frame: %s" % (kind, d)
    else:
        h1, h2 = construct(kind, route), construct(kind, route)
        if h1 is None:
            return None
    shared = set(execs.mutable_ids(h1)) & set(execs.mutable_ids(h2))
    if shared:
        return "%s built twice through %s with default arguments: the two aggregators share %d mutable object(s)" % (kind, route, len(shared))
    before = execs.canon_doc(h2.toJson())
    rows = [{"x": v, "y": v * 0.5, "s": "a" if math.isnan(v) or v < 0 else "b"} for v in xs]
    for i, r in enumerate(rows):
        h1.fill(r, 1.0 + (i % 2))
    try:
        h1.fill.numpy(frame(xs))
    except Exception:  # noqa: BLE001 - vectorised filling is not what this check is about
        pass
    d = execs.diff_doc(before, execs.canon_doc(h2.toJson()))
    if d:
        return "%s built twice through %s with default arguments: filling the first changed the second: %s" % (kind, route, d)
    if route != "df":
        h3 = construct(kind, route)
        if h3.entries != 0.0 or execs.diff_doc(execs.canon_doc(h3.toJson()), execs.canon_doc(h3.zero().toJson())):
            return "%s built through %s after another instance was filled is not empty: %r" % (kind, route, h3.toJson())
    return None
