"""Wire format shared by the Python harness and the Lean driver (DESIGN §4.1/§4.2).

Standard JSON in which every JSON string carries a one-character tag:
  "#3/2", "#-7", "#nan", "#inf", "#-inf"   an exact number
  "$abc"                                    a string
Object keys are untagged.  Floats are converted to exact rationals with ``Fraction``; never compared
as text.
"""
import json
import math
import subprocess
import os
from fractions import Fraction

HERE = os.path.dirname(os.path.abspath(__file__))
LEAN_DIR = os.path.join(os.path.dirname(HERE), "lean")
DRIVER = os.path.join(LEAN_DIR, ".lake", "build", "bin", "hgdriver")


class RAISES:
    """cell marker: the quantity function raises"""


class Wrong:
    """cell value of a type no primitive accepts"""

    def __repr__(self):
        return "Wrong()"


WRONG = Wrong()


class Boom(Exception):
    """raised by a quantity on a RAISES cell"""


def num_to_wire(x):
    if isinstance(x, bool):
        return "#1" if x else "#0"
    if isinstance(x, int):
        return "#%d" % x
    if isinstance(x, Fraction):
        return "#%d" % x.numerator if x.denominator == 1 else "#%d/%d" % (x.numerator, x.denominator)
    x = float(x)
    if math.isnan(x):
        return "#nan"
    if math.isinf(x):
        return "#inf" if x > 0 else "#-inf"
    f = Fraction(x)
    return "#%d" % f.numerator if f.denominator == 1 else "#%d/%d" % (f.numerator, f.denominator)


def wire_to_num(s):
    """'#p/q' -> Fraction | float nan/inf"""
    body = s[1:]
    if body == "nan":
        return float("nan")
    if body == "inf":
        return float("inf")
    if body == "-inf":
        return float("-inf")
    return Fraction(body)


def doc_to_wire(j):
    """A JSON-like Python value (a Histogrammar document, a spec) -> wire value."""
    if j is None or isinstance(j, bool):
        return j
    if isinstance(j, (int, float, Fraction)):
        return num_to_wire(j)
    if isinstance(j, str):
        return "$" + j
    if isinstance(j, (list, tuple)):
        return [doc_to_wire(x) for x in j]
    if isinstance(j, dict):
        return {str(k): doc_to_wire(v) for k, v in j.items()}
    # numpy scalars and the like
    try:
        import numpy as np

        if isinstance(j, np.bool_):
            return bool(j)
        if isinstance(j, (np.integer,)):
            return num_to_wire(int(j))
        if isinstance(j, (np.floating,)):
            return num_to_wire(float(j))
    except ImportError:
        pass
    raise TypeError("cannot put %r on the wire" % (j,))


def wire_to_doc(w):
    """wire value -> Python value with Fractions for finite numbers, float for nan/inf."""
    if w is None or isinstance(w, bool):
        return w
    if isinstance(w, str):
        if w.startswith("#"):
            return wire_to_num(w)
        if w.startswith("$"):
            return w[1:]
        return w
    if isinstance(w, list):
        return [wire_to_doc(x) for x in w]
    if isinstance(w, dict):
        return {k: wire_to_doc(v) for k, v in w.items()}
    if isinstance(w, int):
        return Fraction(w)
    raise TypeError(w)


def cell_to_wire(c):
    if c is RAISES:
        return {"f": "$raises"}
    if c is WRONG or isinstance(c, Wrong):
        return {"f": "$wrong"}
    if c is None or isinstance(c, bool):
        return c
    if isinstance(c, str):
        return "$" + c
    if isinstance(c, (list, tuple)):
        return [num_to_wire(x) for x in c]
    return num_to_wire(c)


class Driver:
    """The Lean model behind the line protocol (compiled `hgdriver`)."""

    def __init__(self):
        if not os.path.exists(DRIVER):
            raise RuntimeError("model driver not built: %s (run `cd lean && lake build Hg hgdriver`)" % DRIVER)
        self.p = subprocess.Popen([DRIVER], stdin=subprocess.PIPE, stdout=subprocess.PIPE, text=True, bufsize=1)
        self.lines = 0

    def send(self, cmd):
        """cmd: Python list already in wire form; returns the reply converted by wire_to_doc."""
        line = json.dumps(cmd, separators=(",", ":"))
        self.p.stdin.write(line + "\n")
        self.p.stdin.flush()
        out = self.p.stdout.readline()
        if not out:
            raise RuntimeError("model driver died on: " + line[:300])
        self.lines += 1
        return wire_to_doc(json.loads(out))

    def close(self):
        try:
            self.p.stdin.close()
            self.p.wait(timeout=5)
        except Exception:
            self.p.kill()
